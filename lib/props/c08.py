"""C08 - reconnecting streams never orphan, steal or crash a shard's registration."""
import os

from .. import vfcore as V
from ..instrument import instrument, run_calls

PROP = "C08"
TARGETS = ["theories/Registry/Proofs.vo", "theories/Registry/Unbounded.vo", "theories/Handover/Proofs.vo"]
GO = ["zz_verif_registry_test.go", "zz_verif_fakes_test.go", "zz_verif_routing_test.go"]
ANCHORS = ["shard_manager", "proxy_streams", "intra_proxy_router"]
EXPECTED_PROGS = {"sr": "SetRemoteSendChan RegisterShard", "sc": "close UnregisterShard RemoveRemoteSendChan",
                  "rr": "TerminatePreviousLocalReceiver SetLocalAckChan RegisterLocalReceiver", "rc": "RemoveLocalAckChan UnregisterLocalReceiver"}


# ----------------------------------------------------------------------------- scenarios for the schedule explorer
def scenarios(rng, tier):
    """(name, init, threads, mode, max) - all with successive incarnations: incarnation n+1 starts registering once n has
    registered (INIT or w:), cleanups and replays anywhere."""
    big = 300000 if tier == "thorough" else 6000
    S = [
        ("two_senders", ["sr0", "rr0"], [["sc0"], ["sr1"], ["rp0"]], "exhaustive", 200000),
        ("two_receivers", ["sr0", "rr0"], [["rc0"], ["rr1"]], "exhaustive", 200000),
        ("ended_senders", ["sr0", "rr0"], [["sc0"], ["sr1", "sc1"]] + ([["rp0"]] if tier == "thorough" else []), "exhaustive", 400000),
        ("ended_receivers", ["sr0", "rr0"], [["rc0"], ["rr1", "rc1"]], "exhaustive", 200000),
        ("replay_vs_close", ["sr0"], [["sc0"], ["rp0"], ["rp1"]], "exhaustive", 200000),
        ("three_senders", ["sr0"], [["sc0"], ["sr1", "sc1"], ["w:sr1", "sr2"]], "exhaustive" if tier == "thorough" else "random", big),
        ("three_receivers", ["rr0"], [["rc0"], ["rr1", "rc1"], ["w:rr1", "rr2"]], "exhaustive" if tier == "thorough" else "random", big),
        ("three_ended_senders", ["sr0"], [["sc0"], ["sr1", "sc1"], ["w:sr1", "sr2", "sc2"]], "random", big),
        ("three_ended_receivers", ["rr0"], [["rc0"], ["rr1", "rc1"], ["w:rr1", "rr2", "rc2"]], "random", big),
        ("pair_overlap", ["sr0", "rr0"], [["sc0"], ["rc0"], ["sr1"], ["rr1"]], "random", big),
        ("pair_ended", ["sr0", "rr0"], [["sc0"], ["rc0"], ["sr1", "sc1"], ["rr1", "rc1"], ["rp0"]], "random", big),
    ]
    # random structures: 2-4 incarnations of either side, each cleaning up or not, replays
    for k in range(6 if tier == "quick" else 40):
        side = rng.choice(["s", "r"])
        n = rng.range(2, 5)
        reg, cl = side + "r", side + "c"
        init = [reg + "0"]
        threads = []
        if rng.chance(4, 5):
            threads.append([cl + "0"])
        for i in range(1, n):
            th = ([] if i == 1 else ["w:%s%d" % (reg, i - 1)]) + ["%s%d" % (reg, i)]
            if i < n - 1 or rng.chance(1, 3):
                if rng.chance(1, 2):
                    th.append("%s%d" % (cl, i))
                else:
                    threads.append(["w:%s%d" % (reg, i), "%s%d" % (cl, i)])
            threads.append(th)
        if side == "s":
            for r in range(rng.below(3)):
                threads.append(["rp%d" % r])
        S.append(("random%d" % k, init, threads, "random", 1500 if tier == "quick" else 5000))
    return S


def expected_newest(init, threads):
    """Per side: the newest incarnation that registers, or None when it also cleans up."""
    res = {}
    items = list(init) + [it for th in threads for it in th if not it.startswith("w:")]
    for side in "sr":
        regs = sorted(int(it[2:]) for it in items if it.startswith(side + "r"))
        if not regs:
            continue
        newest = regs[-1]
        res[side] = None if ("%sc%d" % (side, newest)) in items else newest
    return res


def scen_text(progs, sc, seed, one=None):
    name, init, threads, mode, mx = sc
    lines = ["PROG %s %s" % (k, " ".join(v)) for k, v in sorted(progs.items())]
    lines += ["SCEN " + name, "INIT " + " ".join(init)] + ["THREAD " + " ".join(t) for t in threads]
    if one is not None:
        lines.append("ONE " + one)
    else:
        lines += ["MODE %s %d %d" % (mode, mx, seed), "END"]
    return lines


def parse_blocks(text):
    res, cur, name = {}, None, None
    for l in text.split("\n"):
        if l.startswith("# scenario"):
            name, cur = l.split()[2], []
        elif l == "#end":
            res[name] = cur
            cur = None
        elif cur is not None and l:
            cur.append(l)
    return res


def replace_map():
    rep = {"proxy/zz_verif_sched.go": os.path.join(V.ROOT, "go/overlay/proxy/zz_verif_sched.go")}
    stats = {}
    for f in ANCHORS:
        dst = os.path.join(V.WORK, "instr", f + ".go")
        stats[f] = instrument(os.path.join(V.REPO, "proxy", f + ".go"), dst)
        rep["proxy/%s.go" % f] = dst
    return rep, stats


def run_explorer(lines, tag, rep):
    inp = os.path.join(V.WORK, "c08_%s.in" % tag)
    outp = os.path.join(V.WORK, "c08_%s.out" % tag)
    open(inp, "w").write("\n".join(lines) + "\n")
    if os.path.exists(outp):
        os.remove(outp)
    rc, out = V.go_test("proxy", GO, "^TestVerifRegistry$", env={"VERIF_IN": inp, "VERIF_OUT": outp}, timeout=3000, replace=rep)
    if rc != 0 or not os.path.exists(outp):
        return "explorer failed:\n" + out[-3000:], None
    return None, parse_blocks(open(outp).read())


def run_model(exe, lines):
    rc, out = V.run(["sh", "-c", "ulimit -s unlimited 2>/dev/null; exec \"$0\"", exe], input="\n".join(lines) + "\n", timeout=1800)
    if rc != 0:
        return "model driver failed: " + out[-1500:], None, None
    progs = {l.split()[1]: " ".join(l.split()[2:]) for l in out.split("\n") if l.startswith("MODELPROG")}
    return None, parse_blocks(out), progs


def outs(block):
    return sorted(set(l[4:].split(" | ")[0] for l in block if l.startswith("OUT ")))


def example(block, state):
    for l in block:
        if l.startswith("OUT " + state + " |"):
            return l.split("sched=")[1].strip()
    return "-"


def monitor_state(state, exp):
    """The property's clause for one final state of a scenario with successive incarnations."""
    bad = []
    if state in ("deadlock", "hang", "incomplete"):
        return ["the threads " + state]
    f = dict(x.split("=") for x in state.split())
    w = lambda v: "-" if v is None else str(v)
    if "s" in exp:
        if f["sh"] != w(exp["s"]):
            bad.append("ownership entry is %s, newest live sender is %s" % (f["sh"], w(exp["s"])))
        if f["se"] != w(exp["s"]):
            bad.append("delivery channel entry is %s, newest live sender is %s" % (f["se"], w(exp["s"])))
    if "r" in exp:
        for k, nm in (("ack", "acknowledgement channel"), ("can", "cancel function"), ("act", "active receiver (watermark replay)")):
            if f[k] != w(exp["r"]):
                bad.append("%s entry is %s, newest live receiver is %s" % (nm, f[k], w(exp["r"])))
    if f["crash"] != "0":
        bad.append("a goroutine panicked")
    if f["held"] != "0":
        bad.append("a lock is still held")
    return bad


# ----------------------------------------------------------------------------- whole-stream overlap
def stream_scenarios(rng, n):
    res = []
    for k in range(n):
        ev = ["RS s%d" % k, "OS", "OT", "W"]
        ts, ss = [0], [0]      # incarnation numbers; live = last element if not None
        liveT, liveS = 0, 0
        nT, nS = 1, 1
        h = 5
        wm_sent, recv_ok = False, True
        for _ in range(rng.range(2, 7)):
            r = rng.below(100)
            side = "T" if rng.chance(1, 2) else "S"
            live = liveT if side == "T" else liveS
            cnt = nT if side == "T" else nS
            if side == "S" and r < 75:
                wm_sent = False     # a new source receiver holds no watermark until the source announces one
            if r < 12 and k % 2 == 1:
                # reconnect whose receiver cannot open its stream to the local server: the pair stays up with its sender
                # only (the previous incarnation is broken first or evicted by the attempt), until it is broken later
                if live is not None and rng.chance(1, 2):
                    ev += ["B%s %d" % (side, live), "W"]
                wm_sent = False
                ev += ["F" + side, "O" + side]
                if side == "T":
                    liveT, nT = cnt, cnt + 1
                else:
                    liveS, nS = cnt, cnt + 1
                ev.append("W")
                # nothing flows while one receiver is missing; the pair is then broken, or replaced with overlap
                if rng.chance(1, 2):
                    ev += ["B%s %d" % (side, cnt)]
                    if side == "T":
                        liveT = None
                    else:
                        liveS = None
                else:
                    ev += ["O" + side, "B%s %d" % (side, cnt)]
                    if side == "T":
                        liveT, nT = cnt + 1, cnt + 2
                    else:
                        liveS, nS = cnt + 1, cnt + 2
            elif r < 60:
                # reconnect with overlap
                if live is None:
                    ev.append("O" + side)
                else:
                    v = rng.below(3)
                    if v == 0:
                        ev += ["B%s %d" % (side, live), "O" + side]
                    elif v == 1:
                        # the successor opens (and, with Z, has registered) while the predecessor is still up
                        ev += ["O" + side] + (["Z"] if rng.chance(2, 3) else []) + ["B%s %d" % (side, live)]
                    else:
                        ev += ["B%s %d" % (side, live), "Y", "O" + side]
                if side == "T":
                    liveT, nT = cnt, cnt + 1
                else:
                    liveS, nS = cnt, cnt + 1
            elif r < 75:
                if live is not None:
                    ev.append("B%s %d" % (side, live))
                    if side == "T":
                        liveT = None
                    else:
                        liveS = None
            else:
                pass
            if side == "T" and r >= 12 and r < 60 and live is not None and liveT is not None and liveS is not None and wm_sent and recv_ok:
                # the target's stream was re-established while the source is idle: the successor must be handed the pending watermark
                ev.append("P")
            ev.append("W")
            if liveT is not None and liveS is not None:
                h += rng.range(1, 5)
                ev += ["M %d" % h, "A 0"]
                wm_sent = True
        if liveT is not None:
            ev.append("BT %d" % liveT)
        if liveS is not None:
            ev.append("BS %d" % liveS)
        ev += ["W", "END"]
        res.append(ev)
    return res


def stream_monitor(ev, lines):
    bad = []
    liveT = liveS = None
    nT = nS = 0
    it = iter(lines)
    regs = [l for l in lines if l.startswith("REG")]
    ri = 0
    blocks, cur = [], None
    for l in lines:
        if l.startswith(("REG", "M ", "A ", "FINAL", "PANIC")) or l == "P":
            cur = [l]
            blocks.append(cur)
        elif cur is not None:
            cur.append(l)
    bi = 0
    recvT = recvS = True     # does the live pair have a receiver (its stream to the local server could be opened)
    failT = failS = False
    for e in ev[1:]:
        f = e.split()
        if f[0] == "FT":
            failT = True
        elif f[0] == "FS":
            failS = True
        elif f[0] == "OT":
            liveT, nT = nT, nT + 1
            recvT, failT = not failT, False
        elif f[0] == "OS":
            liveS, nS = nS, nS + 1
            recvS, failS = not failS, False
        elif f[0] == "BT":
            if liveT == int(f[1]):
                liveT = None
        elif f[0] == "BS":
            if liveS == int(f[1]):
                liveS = None
        elif f[0] in ("W", "M", "A", "P"):
            if bi >= len(blocks):
                bad.append("no report for event " + e)
                break
            b = blocks[bi]
            bi += 1
            if f[0] == "W":
                d = dict(x.split("=") for x in b[0].split()[1:])
                want = (liveT is not None) + (liveS is not None)
                wantr = (liveT is not None and recvT) + (liveS is not None and recvS)
                for k in ("local", "send", "ack", "cancel", "active"):
                    w_ = want if k in ("local", "send") else wantr
                    if int(d[k]) != w_:
                        bad.append("after settling, %d live stream pair(s), %d with a receiver, but %s registry has %s entries: %s" % (want, wantr, k, d[k], b[0]))
                if d["view"] != "%d/%d/%d" % (want, want, wantr):
                    bad.append("debug view disagrees: " + b[0])
                if d["aliveT"] != ("" if liveT is None else str(liveT)) or d["aliveS"] != ("" if liveS is None else str(liveS)):
                    bad.append("handlers still running %s/%s, live incarnations %s/%s" % (d["aliveT"], d["aliveS"], liveT, liveS))
            elif f[0] == "P":
                if not any(x.startswith("T 0 ") for x in b[1:]):
                    bad.append("the target's stream was re-established while the source was idle and the newest incarnation was not handed the pending watermark")
            elif f[0] == "M":
                if not any(x.startswith("T 0 ") for x in b[1:]):
                    bad.append("watermark %s did not reach the newest target stream" % f[1])
            elif f[0] == "A":
                if not any(x.startswith("K 0 ") for x in b[1:]):
                    bad.append("acknowledgement did not reach the source stream")
    for l in lines:
        if l.startswith("PANIC"):
            bad.append(l[:300])
        if l.startswith("FINAL") and l.strip() != "FINAL aliveT= aliveS=":
            bad.append("workers left running after all streams ended: " + l)
    return bad


def run_streams(scs, tag):
    inp = os.path.join(V.WORK, "c08s_%s.in" % tag)
    outp = os.path.join(V.WORK, "c08s_%s.out" % tag)
    open(inp, "w").write("".join("\n".join(s) + "\n" for s in scs))
    if os.path.exists(outp):
        os.remove(outp)
    rc, out = V.go_test("proxy", GO + ["zz_verif_sched.go"], "^TestVerifRegistryStreams$", env={"VERIF_IN": inp, "VERIF_OUT": outp}, timeout=3000)
    if rc != 0 or not os.path.exists(outp):
        return "stream harness failed:\n" + out[-3000:], None
    return None, parse_blocks(open(outp).read())


# ----------------------------------------------------------------------------- intra-proxy receiver hand-over
def intra_scenarios(rng, n):
    res = [
        ["IR blocked", "REG 1 1", "MSG 1", "MSG 2", "MSG 3", "W", "CLOSE 1", "REM 1", "W", "REG 2 8", "W", "END"],
        ["IR idle", "REG 1 8", "MSG 1", "W", "CLOSE 1", "REM 1", "MSG 2", "REG 2 8", "W", "END"],
        ["IR closedwindow", "REG 1 8", "CLOSE 1", "MSG 1", "W", "REM 1", "REG 2 8", "W", "END"],
        ["IR overwrite", "REG 1 1", "MSG 1", "MSG 2", "W", "REG 2 8", "CLOSE 1", "REM 1", "W", "END"],
        ["IR blockedlate", "REG 1 1", "MSG 1", "MSG 2", "W", "CLOSE 1", "W", "W", "REM 1", "REG 2 8", "MSG 3", "W", "END"],
    ]
    for k in range(n):
        ev = ["IR r%d" % k, "REG 1 %d" % rng.range(1, 3)]
        live, inc, mid = 1, 1, 0
        for _ in range(rng.range(3, 9)):
            r = rng.below(100)
            if r < 45:
                mid += 1
                ev.append("MSG %d" % mid)
            elif r < 60 and live is not None:
                ev.append("TAKE %d %d" % (live, rng.range(1, 2)))
            elif r < 85 and live is not None:
                # the sender's stream is re-established: close / remove / register in one of the orders the code allows
                ev.append("W")
                inc += 1
                order = rng.below(4)
                if order == 3:
                    # a batch arrives while the dead incarnation's closed channel is still registered
                    mid += 1
                    ev += ["CLOSE %d" % live, "MSG %d" % mid, "W", "REM %d" % live, "REG %d %d" % (inc, rng.range(1, 4))]
                elif order == 0:
                    ev += ["CLOSE %d" % live, "REM %d" % live, "REG %d %d" % (inc, rng.range(1, 4))]
                elif order == 1:
                    ev += ["CLOSE %d" % live, "W", "REM %d" % live, "W", "REG %d %d" % (inc, rng.range(1, 4))]
                else:
                    ev += ["REG %d %d" % (inc, rng.range(1, 4)), "CLOSE %d" % live, "REM %d" % live]
                live = inc
            else:
                ev.append("W")
        ev += ["W", "END"]
        res.append(ev)
    return res


def settled_scenarios(rng, n):
    """every operation followed by a pause, capacities never reached: the outcome is a function of the operation order"""
    res = []
    for k in range(n):
        ev = ["IR s%d" % k, "REG 1 64", "W"]
        live, inc, mid = 1, 1, 0
        for _ in range(rng.range(3, 9)):
            r = rng.below(100)
            if r < 45:
                mid += 1
                ev += ["MSG %d" % mid, "W"]
            elif r < 60 and live is not None:
                ev += ["TAKE %d %d" % (live, rng.range(1, 2)), "W"]
            elif r < 90:
                inc += 1
                order = rng.below(4)
                if order == 3:
                    mid += 1
                    ev += ["CLOSE %d" % live, "W", "MSG %d" % mid, "W", "REM %d" % live, "W", "REG %d 64" % inc, "W"]
                elif order == 2:
                    ev += ["REG %d 64" % inc, "W", "CLOSE %d" % live, "W", "REM %d" % live, "W"]
                else:
                    ev += ["CLOSE %d" % live, "W", "REM %d" % live, "W", "REG %d 64" % inc, "W"]
                live = inc
            else:
                ev.append("W")
        ev += ["W", "END"]
        res.append(ev)
    return res


def intra_monitor(ev, lines):
    bad = []
    sent = [int(e.split()[1]) for e in ev if e.startswith("MSG ")]
    got = [(int(l.split()[1]), int(l.split()[2])) for l in lines if l.startswith("GOT ")]
    lost = [int(l.split()[2]) for l in lines if l.startswith("LOST ")]
    seen = sorted([i for _, i in got] + lost)
    if seen != sorted(sent):
        missing = [i for i in sent if i not in seen]
        dup = sorted(set(i for i in seen if seen.count(i) > 1))
        bad.append("batches sent by the peer %s; taken by an incarnation %s, gone down with a closed one %s: never handed over %s, handed over twice %s" % (sent, [i for _, i in got], lost, missing, dup))
    order = [i for _, i in got]
    if order != sorted(order):
        bad.append("batches reached the senders out of order: %s" % got)
    for l in lines:
        if l.startswith("PANIC"):
            bad.append(l[:200])
        if l.startswith("END") and l.strip() != "END returned=1":
            bad.append("the receiver did not return after shutdown: " + l)
    return bad


def run_intra(scs, tag):
    inp = os.path.join(V.WORK, "c08i_%s.in" % tag)
    outp = os.path.join(V.WORK, "c08i_%s.out" % tag)
    open(inp, "w").write("".join("\n".join(s) + "\n" for s in scs))
    if os.path.exists(outp):
        os.remove(outp)
    rc, out = V.go_test("proxy", ["zz_verif_fakes_test.go", "zz_verif_intrarecv_test.go"], "^TestVerifIntraRecv$", env={"VERIF_IN": inp, "VERIF_OUT": outp}, timeout=900)
    if rc != 0 or not os.path.exists(outp):
        return "intra-proxy receiver harness failed:\n" + out[-3000:], None
    return None, parse_blocks(open(outp).read())


# ----------------------------------------------------------------------------- check
def check(tier, seed):
    ck = V.Check(PROP, tier, seed)
    ck.trusted = V.std_trusted() + [
        "translator: lib/instrument.py (syntactic rewrite of the mutex call statements of the three anchor files, checked for completeness by counting; regex reading of the shard-manager calls of the two Run functions)",
        "schedule explorer: go/overlay/proxy/zz_verif_sched.go; scheduling points are lock acquisitions, channel selects in the anchor files and the harness's channel close: code between two "
        "points is assumed not to touch shared state other than through those (true of the registry methods, which only touch their maps under their locks)",
        "modelled not verified: goroutine scheduling inside a critical section, Go maps and channels, time.Now() as registration identity (assumed distinct for distinct registrations), gRPC stream teardown",
    ]
    proof_ok = V.coq_stage(ck, PROP, TARGETS)
    ok, log, exe = V.ocaml_build("registry_driver", "ExtractRegistry.v", "registry_model.ml", "registry_driver.ml")
    ck.obligation("extraction + driver build", ok, log[-1500:])
    rng = V.Rng(seed)
    # --- translator tie
    rep, stats = replace_map()
    inst_ok = all(d == t for d, t, _ in stats.values())
    ck.obligation("instrumentation rewrote every mutex call of the anchor files", inst_ok, str(stats))
    try:
        progs = run_calls(os.path.join(V.REPO, "proxy", "proxy_streams.go"))
    except Exception as e:  # noqa
        progs = {}
        ck.log("call extraction failed: %r" % (e,))
    scs = scenarios(rng, tier)
    lines = []
    for sc in scs:
        lines += scen_text(progs, sc, seed)
    err, impl = run_explorer(lines, "main", rep)
    err2, model, mprogs = run_model(exe, lines) if ok else ("no driver", None, None)
    if err or err2:
        ck.obligation("correspondence run", False, (err or err2)[:1500])
        ck.violation({"kind": "harness", "log": err or err2, "broken": "C08 harness"}, "harness failed: " + (err or err2)[:300], no_input=True)
        return ck.finish()
    prog_ok = all(" ".join(progs.get(k, [])) == mprogs.get(k) for k in EXPECTED_PROGS)
    ck.obligation("the call sequences of proxyStreamSender.Run / proxyStreamReceiver.Run are the model's programs", prog_ok,
                  "source: %s model: %s" % ({k: " ".join(v) for k, v in progs.items()}, mprogs))
    diffs, mon, nsched, nexh = [], [], 0, 0
    for sc in scs:
        name, init, threads, mode, mx = sc
        ib, mb = impl.get(name, []), model.get(name, [])
        io, mo = outs(ib), outs(mb)
        hdr = [l for l in ib if l.startswith("SCHEDULES")]
        complete = bool(hdr) and "complete=1" in hdr[0]
        nsched += int(hdr[0].split()[1]) if hdr else 0
        nexh += complete
        errs = [l for l in ib if l.startswith("ERR")] + [l for l in mb if l.startswith(("NOMODEL", "UNKNOWN"))]
        if errs:
            diffs.append((name, "calls not understood: " + "; ".join(errs[:3]), None))
        elif complete and io != mo:
            extra = [s for s in io if s not in mo] or [s for s in mo if s not in io]
            diffs.append((name, "final states differ (exhaustive): impl-only %s, model-only %s" % ([s for s in io if s not in mo], [s for s in mo if s not in io]), extra[0] if extra[0] in io else None))
        elif not complete and any(s not in mo for s in io):
            extra = [s for s in io if s not in mo]
            diffs.append((name, "final state not among the model's outcomes: %s" % extra[:2], extra[0]))
        if not any("DEADLOCKS 0" == l for l in mb) and mb:
            diffs.append((name, "model deadlocks", None))
        exp = expected_newest(init, threads)
        for s in io:
            b = monitor_state(s, exp)
            if b:
                mon.append((sc, s, b, example(ib, s)))
    ck.obligation("correspondence: the sets of final registry states over all schedules of the real shardManagerImpl = the model's outcome sets (subset for sampled scenarios)", not diffs,
                  "; ".join("%s: %s" % (n, d) for n, d, _ in diffs[:3]))
    ck.obligation("monitor: in every schedule the registries hold exactly the newest live incarnation (nothing when all ended), no panic, no lock left held, no deadlock", not mon,
                  "; ".join("%s: %s" % (sc[0], b[0]) for sc, s, b, _ in mon[:3]))
    # --- whole streams
    sscs = stream_scenarios(rng, 24 if tier == "quick" else 400)
    err, sres = run_streams(sscs, "main")
    smon = []
    if err:
        ck.obligation("whole-stream run", False, err[:1500])
        if not V.crash_violation(ck, err, os.path.join(V.WORK, "c08s_main.out"), sscs, lambda h: run_streams([h], "crash")[0], "whole-stream reconnect harness"):
            ck.violation({"kind": "harness", "log": err, "broken": "C08 stream harness"}, "harness failed: " + err[:300], no_input=True)
        return ck.finish()
    for ev in sscs:
        b = stream_monitor(ev, sres.get(ev[0].split()[1], []))
        if b:
            # this harness runs in real time (fixed settling pauses): a finding must reproduce before it is reported
            again = 0
            for _ in range(3):
                e2, r2 = run_streams([ev], "retry")
                if not e2 and stream_monitor(ev, r2.get(ev[0].split()[1], [])):
                    again += 1
            if again:
                smon.append((ev, b))
            else:
                ck.notes.append("whole-stream scenario %s flagged once and not reproduced in 3 re-runs (timing): %s" % (ev[0], b[0][:200]))
    ck.obligation("whole streams (real sender/receiver pairs re-established with overlap): registries = live pairs at quiescence, watermarks and acknowledgements flow through the newest pair, "
                  "all handlers return once every stream ended", not smon, "; ".join(b[0] for _, b in smon[:3]))
    # --- the intra-proxy receiver's hand-over across reconnects of the target shard's sender (real time, monitor only)
    irs = intra_scenarios(rng, 12 if tier == "quick" else 200)
    ierr, ires = run_intra(irs, "main")
    imon = []
    if ierr:
        ck.obligation("intra-proxy hand-over run", False, ierr[:1500])
        ck.violation({"kind": "harness", "log": ierr, "broken": "C08 intra-proxy receiver harness"}, "harness failed: " + ierr[:300], no_input=True)
        return ck.finish()
    for sc in irs:
        b = intra_monitor(sc, ires.get(sc[0].split()[1], []))
        if b:
            again = 0
            for _ in range(3):
                e2, r2 = run_intra([sc], "retry")
                if not e2 and intra_monitor(sc, r2.get(sc[0].split()[1], [])):
                    again += 1
            if again:
                imon.append((sc, b))
            else:
                ck.notes.append("intra-proxy hand-over scenario %s flagged once and not reproduced in 3 re-runs (timing): %s" % (sc[0], b[0][:200]))
    # correspondence with the hand-over model (Handover/Model.v) on settled scenarios: ample channel capacity and a pause
    # after every operation make the real receiver's outcome deterministic
    hok, hlog, hexe = V.ocaml_build("handover_driver", "ExtractHandover.v", "handover_model.ml", "handover_driver.ml")
    ck.obligation("extraction + driver build (hand-over model)", hok, hlog[-1500:])
    settled = settled_scenarios(rng, 10 if tier == "quick" else 120)
    hdiff = []
    if hok:
        herr, hres = run_intra(settled, "settled")
        rc, mout = V.run([hexe], input="".join("\n".join(sc) + "\n" for sc in settled), timeout=300)
        if herr or rc != 0:
            hdiff.append(("harness", (herr or mout)[-800:]))
        else:
            mres = parse_blocks(mout)
            for sc in settled:
                nm = sc[0].split()[1]
                if hres.get(nm) != mres.get(nm):
                    # real time: a difference must reproduce
                    again = 0
                    for _ in range(3):
                        e2, r2 = run_intra([sc], "settledr")
                        if not e2 and r2.get(nm) != mres.get(nm):
                            again += 1
                    if again:
                        hdiff.append((sc, "impl %s / model %s" % (hres.get(nm), mres.get(nm))))
    ck.obligation("correspondence: the real intra-proxy receiver's hand-over = extracted Handover.Model on %d settled scenarios (which incarnation took which batch, what went down with a closed "
                  "channel)" % len(settled), hok and not hdiff, "; ".join(str(d[1])[:300] for d in hdiff[:2]))
    if hdiff and not mon and not smon and not imon:
        sc, txt = hdiff[0]
        if sc == "harness":
            ck.violation({"kind": "harness", "log": txt, "broken": "C08 hand-over correspondence"}, txt[:300], no_input=True)
        else:
            b = intra_monitor(sc, hres.get(sc[0].split()[1], []))
            if b:
                ck.violation({"kind": "intra", "events": sc, "impl": hres.get(sc[0].split()[1], []), "verdict": b[0]}, b[0][:300])
            else:
                ck.violation({"kind": "unproved", "broken": ["correspondence Handover.Model <-> intraProxyStreamReceiver.recvReplicationMessages"], "events": sc, "detail": txt,
                              "search": "the hand-over monitor finds no lost, duplicated or reordered batch in this scenario"}, "hand-over correspondence differs: " + txt[:300], no_input=True)
    ck.obligation("intra-proxy receiver: across reconnects of the target shard's sender (channel closed, removed, successor registered, in every order, receiver blocked on a full buffer or not) "
                  "every batch from the peer is taken exactly once, in order, by an incarnation that was live (%d scenarios)" % len(irs), not imon, "; ".join(b[0] for _, b in imon[:3]))
    if imon and not mon and not smon:
        sc, b = imon[0]
        ck.violation({"kind": "intra", "events": sc, "impl": ires.get(sc[0].split()[1], []), "verdict": b[0]}, b[0][:300])
    ck.cov.update({"evaluations": nsched + len(sscs), "distinct_nontrivial": len(scs) + len(sscs), "traces_validated_against_impl": nsched,
                   "schedules_explored": nsched, "scenarios_exhaustive": nexh, "scenarios": len(scs), "stream_scenarios": len(sscs)})
    ck.samples = [{"scenario": scs[0][0], "impl": impl.get(scs[0][0], [])[:6], "model": model.get(scs[0][0], [])[:6]}]
    ck.log("%d explorer scenarios (%d exhaustive, %d schedules), %d differ, %d monitor hits; %d stream scenarios, %d monitor hits" % (len(scs), nexh, nsched, len(diffs), len(mon), len(sscs), len(smon)))
    if mon:
        sc, s, b, sched = mon[0]
        ck.violation({"kind": "schedule", "scenario": list(sc[:3]), "progs": progs, "schedule": sched, "state": s, "verdict": b[0]}, "%s: %s" % (sc[0], b[0][:250]))
    elif smon:
        ev, b = smon[0]
        ck.violation({"kind": "streams", "events": ev, "impl": sres.get(ev[0].split()[1], []), "verdict": b[0]}, b[0][:300])
    elif diffs or not proof_ok or not prog_ok or not inst_ok:
        data = {"kind": "unproved", "broken": [], "search": "%d schedules of %d scenarios and %d whole-stream scenarios under the monitor: no failing input" % (nsched, len(scs), len(sscs))}
        if not proof_ok:
            data["broken"].append("theorems of coq/properties/C08.v no longer check")
        if not prog_ok:
            data["broken"].append("translator: Run's call sequences differ from Registry.Model's programs")
        if not inst_ok:
            data["broken"].append("translator: instrumentation incomplete")
        if diffs:
            data["broken"].append("correspondence Registry.Model <-> shardManagerImpl: " + diffs[0][1])
            data["scenario"] = diffs[0][0]
        ck.violation(data, "; ".join(data["broken"])[:300], no_input=True)
    return ck.finish(rule="every interleaving at lock boundaries (exhaustive for the two-incarnation scenarios, exhaustive or sampled for three and more) of register/cleanup/replay of successive "
                          "incarnations; whole-stream reconnects with the break before, after or just before the new open; non-trivial = every scenario (all overlap two incarnations)")


def replay(data):
    if data.get("kind") == "schedule":
        rep, _ = replace_map()
        name, init, threads = data["scenario"]
        lines = scen_text(data["progs"], (name, init, threads, "exhaustive", 1), 0, one=data["schedule"])
        err, impl = run_explorer(lines, "replay", rep)
        if err:
            print(err)
            return 1
        b = impl.get(name, [])
        print("\n".join(b))
        exp = expected_newest(init, threads)
        bad = [x for s in outs(b) for x in monitor_state(s, exp)]
        print("MONITOR", bad)
        return 1 if bad else 0
    if data.get("kind") == "crash":
        err, res = run_streams([data["history"]], "replay")
        print(err or "the process survives this scenario on the current tree")
        return 1 if err else 0
    if data.get("kind") == "intra":
        err, res = run_intra([data["events"]], "replay")
        if err:
            print(err)
            return 1
        lines = res.get(data["events"][0].split()[1], [])
        print("\n".join(lines))
        bad = intra_monitor(data["events"], lines)
        print("MONITOR", bad)
        return 1 if bad else 0
    if data.get("kind") == "streams":
        bad = []
        for _ in range(5):
            err, res = run_streams([data["events"]], "replay")
            if err:
                print(err)
                return 1
            lines = res.get(data["events"][0].split()[1], [])
            print("\n".join(lines))
            bad = stream_monitor(data["events"], lines)
            print("MONITOR", bad)
            if bad:
                return 1
        return 0
    print("nothing to execute: " + "; ".join(data.get("broken", [])))
    return 1


MANIFEST = {
    "technique": "Coq proof over all executions (interleavings at critical-section granularity, exhaustively explored inside Coq with a proved-sound BFS, plus unbounded lemmas for the conditional "
                 "registries) + translator for Run's call sequences + lock-boundary schedule explorer on the real shardManagerImpl comparing final-state sets + whole-stream overlap harness",
    "text": "Theorems C08_*: for two and three successive incarnations of a shard's sender and receiver, in every interleaving of the critical sections of register / cleanup / watermark replay, the "
            "registries end holding exactly the newest incarnation's entries, nothing panics, no lock stays held; when all incarnations ended nothing is registered; a cleanup changes an entry only if "
            "it is its own (any state, any incarnation); and, unbounded, for ANY operation sequence (any number of incarnations, any interleaving) the sender-side entries registered last survive "
            "every other incarnation's cleanup, guarded replays never crash, and (theories/Registry/Unbounded.v) the receiver-side entries of an incarnation that published its channel and registered "
            "while every other incarnation only cleaned up are all its own at the end with the lock free (C08_receiver_newest_survives, for every lock-respecting sequence and hence every execution), "
            "and nothing remains once it has cleaned up too (C08_receiver_all_ended_empty). The intra-proxy receiver's hand-over has its own model (theories/Handover): for any sequence of "
            "registrations, closes, removals, batches and attempts nothing is lost, duplicated or reordered, a batch only goes to the registered incarnation whose channel is open, an open registered "
            "channel always makes progress, and a receiver that resolved the channel once per batch is refuted (C08_handover_*); the extracted model is compared with the real receiver on settled scenarios. The model's atomicity is tied to the code by enumerating every schedule of the real "
            "methods at lock boundaries and comparing the sets of final states.",
    "note": "Sender-side and receiver-side survival and crash-freedom are unbounded (any number of incarnations); the 2-3 incarnation statements are exhaustive explorations that also cover the eviction of the predecessor; an incarnation that starts registering before its predecessor has registered is outside the statement (the proxy cannot order them). Registration identity is the "
            "time.Now() stamp. Goroutine leak is observed on whole streams (handlers returning), not proved. Also exercised (monitor only, real time): the intra-proxy receiver's hand-over of batches across reconnects of the target shard's sender (go/overlay/proxy/zz_verif_intrarecv_test.go), and stream opens refused by the local server.",
}
