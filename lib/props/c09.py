"""C09 - proxy instances converge on one owner per shard and route to it."""
import itertools
import os

from .. import vfcore as V

PROP = "C09"
TARGETS = ["theories/Ownership/Proofs.vo", "theories/Ownership/Deliver.vo"]
GO = ["zz_verif_ownership_test.go"]


# ----------------------------------------------------------------------------- histories
def linear_extensions(n, cap=None):
    """All orders of {R_x} u {D_{y,x}} with R_x before D_{y,x}."""
    events = [("R", x) for x in range(n)] + [("D", y, x) for x in range(n) for y in range(n) if y != x]
    res = []

    def rec(done, rest):
        if cap is not None and len(res) >= cap:
            return
        if not rest:
            res.append(list(done))
            return
        regs = set(e[1] for e in done if e[0] == "R")
        for i, e in enumerate(rest):
            if e[0] == "D" and e[2] not in regs:
                continue
            rec(done + [e], rest[:i] + rest[i + 1:])

    rec([], events)
    return res


def concretize(n, order):
    """Turn an order of abstract events into a scenario for one shard; registration k of x is the k-th R overall."""
    h = ["CL %d 1" % n]
    kof = {}
    k = 0
    for e in order:
        if e[0] == "R":
            k += 1
            kof[e[1]] = k
            h.append("R %d 0" % e[1])
        else:
            h.append("D %d %d 0 %d" % (e[1], e[2], kof[e[2]]))
    h.append("Q")
    return h


def random_history(rng, n, ns):
    h = ["CL %d %d" % (n, ns)]
    regs = []          # (x, s, k)
    cnt = [0] * ns
    snaps = []
    owner_of = {}
    for _ in range(rng.range(3, 14)):
        r = rng.below(100)
        if r < 35 or not regs:
            x, s = rng.below(n), rng.below(ns)
            cnt[s] += 1
            regs.append((x, s, cnt[s]))
            h.append("R %d %d" % (x, s))
        elif r < 70:
            x, s, k = rng.choice(regs)
            y = rng.choice([i for i in range(n) if i != x])
            h.append("D %d %d %d %d" % (y, x, s, k))
            if rng.chance(1, 4):
                h.append("D %d %d %d %d" % (y, x, s, k))   # duplicate
        elif r < 78:
            x, s, k = rng.choice(regs)
            h.append("U %d %d %d" % (x, s, k))
        elif r < 84:
            h.append("DU %d" % rng.below(n))
        elif r < 92:
            sid = "s%d" % len(snaps)
            x = rng.below(n)
            snaps.append((sid, x))
            h.append("S %s %d" % (sid, x))
        elif snaps:
            sid, x = rng.choice(snaps)
            y = rng.choice([i for i in range(n) if i != x])
            h.append("M %d %s" % (y, sid))
        if rng.chance(1, 5):
            h.append("Q")
    # closing phase: every announcement reaches every other instance once more, in random order
    pend = [(y, x, s, k) for (x, s, k) in regs for y in range(n) if y != x]
    while pend:
        i = rng.below(len(pend))
        y, x, s, k = pend.pop(i)
        h.append("D %d %d %d %d" % (y, x, s, k))
    for y in range(n):
        h.append("DU %d" % y)
    h.append("Q")
    # departures: told directly or for real; possibly followed by fresh snapshots merged elsewhere
    if rng.chance(1, 2):
        x = rng.below(n)
        if rng.chance(1, 2):
            h.append("LR %d" % x)
        else:
            for y in range(n):
                if y != x and rng.chance(3, 4):
                    h.append("L %d %d" % (y, x))
        if rng.chance(1, 3):
            others = [i for i in range(n) if i != x]
            a = rng.choice(others)
            h.append("S z %d" % a)
            for y in others:
                if y != a:
                    h.append("M %d z" % y)
        h.append("Q")
    return h


def model_lines(h):
    """The model knows a departure only as Leave events: LR x = every other instance is told."""
    n = int(h[0].split()[1])
    res = []
    for l in h:
        f = l.split()
        if f[0] == "LR":
            res += ["L %d %s" % (y, f[1]) for y in range(n) if y != int(f[1])]
        else:
            res.append(l)
    return res


def run_impl(hs, tag):
    inp = os.path.join(V.WORK, "c09_%s.in" % tag)
    outp = os.path.join(V.WORK, "c09_%s.out" % tag)
    open(inp, "w").write("".join("\n".join(h) + "\n" for h in hs))
    if os.path.exists(outp):
        os.remove(outp)
    rc, out = V.go_test("proxy", GO, "^TestVerifOwnership$", env={"VERIF_IN": inp, "VERIF_OUT": outp}, timeout=3000)
    if rc != 0 or not os.path.exists(outp):
        return "ownership harness failed:\n" + out[-3000:], None
    res, cur = [], None
    for l in open(outp).read().split("\n"):
        if l.startswith("# scenario"):
            cur = []
        elif l == "#end":
            res.append(cur)
            cur = None
        elif cur is not None and l:
            cur.append(l)
    return None, res


def run_model(exe, hs):
    n_init = []
    text = []
    for h in hs:
        n = int(h[0].split()[1])
        ml = model_lines(h)
        text.append(ml[0])
        # what the completed push/pull round leaves behind
        text.append("S init0 0")
        for x in range(n):
            text.append("S init%d %d" % (x, x))
            for y in range(n):
                if y != x:
                    text.append("M %d init%d" % (y, x))
        text += ml[1:]
    rc, out = V.run([exe], input="\n".join(text) + "\n", timeout=900)
    if rc != 0:
        return "model driver failed: " + out[-1500:], None
    res, cur = [], None
    for l in out.split("\n"):
        if l == "CL":
            if cur is not None:
                res.append(cur)
            cur = []
        elif cur is not None and l:
            cur.append(l)
    if cur is not None:
        res.append(cur)
    return None, res


def state_lines(lines):
    return [l for l in lines if l.startswith(("OWN", "REM"))]


def monitor(h, lines):
    """The property's clauses on the implementation's observations."""
    bad = []
    n, ns = int(h[0].split()[1]), int(h[0].split()[2])
    for l in lines:
        if l.startswith("ANN"):
            f = dict(x.split("=") for x in l.split()[2:])
            if f["got"] != f["peers"]:
                bad.append("a register announcement did not reach every known peer: " + l)
            if f["stampeq"] != "1":
                bad.append("the announcement does not carry the registration stamp: " + l)
        if l.startswith(("PANIC", "ERR", "MISSING")):
            bad.append(l[:300])
        if l.startswith("HANG"):
            bad.append("the instance never returned from event '%s' (handler blocked)" % l[5:])
    # final ownership after the closing phase: find the Q that follows it (the first Q after the last D)
    last_d = max([i for i, l in enumerate(h) if l.startswith("D ")] + [0])
    q_index = sum(1 for l in h[:last_d] if l == "Q")   # number of Qs before the closing one
    blocks, cur = [], None
    for l in lines:
        if l.startswith("OWN 0:"):
            cur = []
            blocks.append(cur)
        if cur is not None and l.startswith(("OWN", "REM", "FWD")):
            cur.append(l)
    if q_index < len(blocks):
        b = blocks[q_index]
        cnt = [0] * ns
        newest, ended = {}, set()
        for l in h[:last_d + 1]:
            f = l.split()
            if f[0] == "R":
                s = int(f[2])
                cnt[s] += 1
                newest[s] = (int(f[1]), cnt[s])
            if f[0] == "U":
                ended.add((int(f[1]), int(f[2]), int(f[3])))
        for s in range(ns):
            if s not in newest:
                continue
            x, k = newest[s]
            own = [l for l in b if l.startswith("OWN %d:" % s)][0].split(":")[1].split()
            for y in range(n):
                if y != x and own[y] != "-":
                    bad.append("shard %d: instance %d still owns it (claim %s) although instance %d's newer claim %d was delivered to it" % (s, y, own[y], x, k))
            if (x, s, k) not in ended and own[x] != str(k):
                bad.append("shard %d: the newest claimant %d (claim %d) does not own it: %s" % (s, x, k, own[x]))
    # departures: after y was told x left (and no state of x merged later), y does not know x and does not forward to it
    told = set()
    qi = 0
    for l in h:
        f = l.split()
        if f[0] == "L":
            told.add((int(f[1]), int(f[2])))
        elif f[0] == "LR":
            told |= set((y, int(f[1])) for y in range(n) if y != int(f[1]))
        elif f[0] == "M":
            pass
        elif l == "Q":
            if qi < len(blocks):
                for (y, x) in told:
                    rem = [r for r in blocks[qi] if r.startswith("REM %d:" % y)]
                    if rem and (" %d=none" % x) not in rem[0]:
                        bad.append("instance %d was told that %d left but still lists it: %s" % (y, x, rem[0]))
                    if any(r.split()[1] == str(y) and r.split()[3] == str(x) for r in blocks[qi] if r.startswith("FWD")):
                        bad.append("instance %d would forward to departed instance %d" % (y, x))
            qi += 1
    return bad


# ----------------------------------------------------------------------------- decision function
LOCAL = ["none", "accepted", "shutdown", "closed", "closedshutdown"]
PEER = ["ok", "err", "absent", "nostream", "sibling"]


def dv_cases():
    res = []
    for kind in ("msg", "ack"):
        for lo in LOCAL:
            for ml, owner, addr, mgr in itertools.product("01", repeat=4):
                for peer in PEER:
                    for fwd in ("1", "0") if kind == "ack" else ("1",):
                        if kind == "ack" and mgr == "0":
                            continue   # DeliverAckToShardOwner is only reachable in routing mode, where the manager exists
                        if mgr == "0" and peer not in ("absent",):
                            continue   # without a manager there are no peer streams
                        res.append("DV %s %s %s %s %s %s %s %s" % (kind, lo, ml, owner, addr, mgr, peer, fwd))
    return res


def dv_spec(case):
    f = case.split()
    kind, lo, ml, owner, addr, mgr, peer, fwd = f[1:9]
    if lo == "accepted":
        return "DV 1 local"
    if lo in ("shutdown", "closedshutdown"):
        return "DV 0 nobody"
    if ml == "1" and owner == "1" and addr == "1" and peer == "ok" and (mgr == "1") and (kind == "msg" or fwd == "1"):
        return "DV 1 remote"
    return "DV 0 nobody"


def run_dv(cases, tag):
    inp = os.path.join(V.WORK, "c09dv_%s.in" % tag)
    outp = os.path.join(V.WORK, "c09dv_%s.out" % tag)
    open(inp, "w").write("\n".join(cases) + "\n")
    if os.path.exists(outp):
        os.remove(outp)
    rc, out = V.go_test("proxy", GO, "^TestVerifDeliver$", env={"VERIF_IN": inp, "VERIF_OUT": outp}, timeout=1200)
    if rc != 0 or not os.path.exists(outp):
        return "deliver harness failed:\n" + out[-3000:], None
    return None, [l for l in open(outp).read().split("\n") if l]


# ----------------------------------------------------------------------------- check
def check(tier, seed):
    ck = V.Check(PROP, tier, seed)
    ck.trusted = V.std_trusted() + [
        "modelled not verified: memberlist (transport, reliable send, failure detection), JSON encoding of announcements, Go map iteration order in getShardOwner, the intra-proxy gRPC streams "
        "(replaced by fakes in the decision-function harness); registration stamps are assumed to come from one monotone clock (all instances run in one process in the harness)",
        "correspondence harness: go/overlay/proxy/zz_verif_ownership_test.go (intercepting memberlist delegate; explicit merges stand for completed push/pull rounds)",
    ]
    proof_ok = V.coq_stage(ck, PROP, TARGETS)
    ok, log, exe = V.ocaml_build("ownership_driver", "ExtractOwnership.v", "ownership_model.ml", "ownership_driver.ml")
    ck.obligation("extraction + driver build", ok, log[-1500:])
    rng = V.Rng(seed)
    hs = [concretize(2, o) for o in linear_extensions(2)]
    ext3 = linear_extensions(3)
    if tier == "quick":
        ext3 = [ext3[rng.below(len(ext3))] for _ in range(150)]
    hs += [concretize(3, o) for o in ext3]
    n_exh = len(hs)
    # re-registration while still owning, then the other instance's newer claim, all delivery orders of the three announcements
    for perm in itertools.permutations([("D", 1, 0, 1), ("D", 1, 0, 2), ("D", 0, 1, 3)]):
        hs.append(["CL 2 1", "R 0 0", "R 0 0", "R 1 0"] + ["D %d %d 0 %d" % (y, x, k) for _, y, x, k in perm] + ["Q"])
    for perm in itertools.permutations(["D 1 0 0 1", "D 0 1 0 2"]):
        for pos in range(3):
            base = list(perm[:pos]) + ["R 0 0"] + list(perm[pos:])
            r = base.index("R 0 0")
            for dpos in range(r + 1, len(base) + 1):
                hs.append(["CL 2 1", "R 0 0", "R 1 0"] + base[:dpos] + ["D 1 0 0 3"] + base[dpos:] + ["Q"])
    # a full-state merge that already carries a claim reaches an instance BEFORE that claim's announcement does
    for n in (2, 3):
        for first in (0, 1):
            other = 1 - first
            h = ["CL %d 1" % n, "R %d 0" % first, "R %d 0" % other, "S m %d" % other]
            h += ["M %d m" % y for y in range(n) if y != other]
            h += ["D %d %d 0 2" % (y, other) for y in range(n) if y != other] + ["D %d %d 0 1" % (y, first) for y in range(n) if y != first] + ["Q"]
            hs.append(h)
            # ... and the same with the merge between the two registrations of a re-registering instance
            hs.append(["CL %d 1" % n, "R %d 0" % first, "S m %d" % first, "M %d m" % other, "R %d 0" % other, "S m2 %d" % other, "M %d m2" % first,
                       "D %d %d 0 2" % (first, other), "D %d %d 0 1" % (other, first), "Q"])
    # an instance that owns many shards (its full state is several hundred bytes): a full-state exchange must still carry all of it
    for nsh in (6, 8, 12, 24, 40):
        hs.append(["CL 2 %d" % nsh] + ["R 0 %d" % sh for sh in range(nsh)] + ["S big 0", "M 1 big", "R 1 0", "S b1 1", "M 0 b1", "Q"])
    for _ in range(120 if tier == "quick" else 4000):
        hs.append(random_history(rng, rng.range(2, 4), rng.range(1, 3)))
    err, impl = run_impl(hs, "main")
    err2, model = run_model(exe, hs) if ok else ("no driver", None)
    cases = dv_cases()
    err3, dv = run_dv(cases, "main")
    if err or err2 or err3:
        e = err or err2 or err3
        ck.obligation("correspondence run", False, e[:1500])
        if not (err and V.crash_violation(ck, err, os.path.join(V.WORK, "c09_main.out"), hs, lambda h: run_impl([h], "crash")[0], "shard ownership harness (real shard managers over an in-memory memberlist network)")):
            ck.violation({"kind": "harness", "log": e, "broken": "C09 harness"}, "harness failed: " + e[:300], no_input=True)
        return ck.finish()
    diffs, mon = [], []
    for i, h in enumerate(hs):
        if i >= len(impl) or i >= len(model) or state_lines(impl[i]) != state_lines(model[i]):
            diffs.append(i)
        b = monitor(h, impl[i] if i < len(impl) else [])
        if b:
            mon.append((i, b))
    ck.obligation("correspondence: local shard sets and remote knowledge of every real instance = model, at every observation point", not diffs, "%d of %d histories differ" % (len(diffs), len(hs)))
    ck.obligation("monitor: announcements carry the registration stamp and reach every known peer; after the newest claim reached everyone only its claimant owns the shard; departed instances are forgotten",
                  not mon, "; ".join(b[0] for _, b in mon[:3]))
    # decision function
    mrc, mout = V.run([exe], input="\n".join(cases) + "\n", timeout=300)
    mdv = [l for l in mout.split("\n") if l.startswith("DV")]
    dv_diff = [i for i, c in enumerate(cases) if i >= len(dv) or i >= len(mdv) or dv[i] != mdv[i]]
    dv_mon = [i for i, c in enumerate(cases) if i >= len(dv) or dv[i] != dv_spec(c)]
    ck.obligation("correspondence: result and recipient of the real Deliver*ToShardOwner = model on all %d combinations" % len(cases), not dv_diff, "%d differ" % len(dv_diff))
    ck.obligation("monitor: local stream first, else the known remote owner, else reported undelivered; never two recipients, never a silent drop", not dv_mon, "%d cases" % len(dv_mon))
    ck.cov.update({"evaluations": len(hs) + len(cases), "distinct_nontrivial": len(hs), "traces_validated_against_impl": len(hs), "exhaustive_orders": n_exh, "decision_cases": len(cases)})
    ck.samples = [{"history": hs[7], "impl": impl[7] if len(impl) > 7 else []}]
    ck.log("%d histories (%d exhaustive delivery orders), %d differ, %d monitor hits; %d decision cases, %d differ, %d monitor hits" % (len(hs), n_exh, len(diffs), len(mon), len(cases), len(dv_diff), len(dv_mon)))
    if mon:
        i, b = mon[0]
        ck.violation({"kind": "history", "history": hs[i], "impl": impl[i], "verdict": b[0]}, b[0][:300])
    elif dv_mon:
        i = dv_mon[0]
        ck.violation({"kind": "decision", "case": cases[i], "impl": dv[i] if i < len(dv) else None, "expected": dv_spec(cases[i])}, "delivery decision %s: got %s, the property says %s" % (cases[i], dv[i] if i < len(dv) else None, dv_spec(cases[i])))
    elif diffs or dv_diff or not proof_ok:
        data = {"kind": "unproved", "broken": [], "search": "%d histories and %d decision cases under the monitor: no failing input" % (len(hs), len(cases))}
        if not proof_ok:
            data["broken"].append("theorems of coq/properties/C09.v no longer check")
        if diffs:
            i = diffs[0]
            data["broken"].append("correspondence Ownership.Model <-> shardManagerImpl")
            data.update({"history": hs[i], "impl": impl[i] if i < len(impl) else None, "model": model[i] if i < len(model) else None})
        if dv_diff:
            data["broken"].append("correspondence Ownership.Deliver <-> Deliver*ToShardOwner: " + cases[dv_diff[0]])
        ck.violation(data, "; ".join(data["broken"])[:300], no_input=True)
    return ck.finish(rule="all delivery orders of the announcements of 2 and 3 claiming instances (exhaustive in the thorough tier, all 2-instance orders and a sample of the 13440 3-instance orders in the "
                          "quick tier), re-registration at every position, random histories with duplicates, stream ends, stale merges, direct and real departures; all input combinations of the two "
                          "delivery functions")


def replay(data):
    if data.get("kind") == "history" or "history" in data:
        err, impl = run_impl([data["history"]], "replay")
        print(err or "\n".join(impl[0]))
        b = monitor(data["history"], impl[0]) if not err else ["harness error"]
        print("MONITOR", b)
        return 1 if b else 0
    if data.get("kind") == "decision":
        err, dv = run_dv([data["case"]], "replay")
        print(err or dv)
        return 1 if err or dv[0] != dv_spec(data["case"]) else 0
    print("nothing to execute: " + "; ".join(data.get("broken", [])))
    return 1


MANIFEST = {
    "technique": "Coq proof over all histories (any number of instances, any order / duplication / delay of announcements) + finite case proof of the delivery decision + differential correspondence on real "
                 "shardManagerImpl instances over memberlist's in-memory network with an intercepting delegate",
    "text": "Theorems C09_*: for any history of registrations, stream ends, announcement deliveries, merges and leaves among any number of instances, once the newest claim has been handed to another "
            "instance that instance no longer owns the shard and never regains it, and the newest claimant keeps it unless its own stream ended; so at most one owner remains. An instance told of a "
            "departure forgets the departed node and never forwards to it (until a state of it is merged again). The delivery decision returns true exactly when exactly one recipient took the item, "
            "local first. The real handlers are driven with harness-chosen delivery orders (exhaustive for 2-3 instances) and compared with the model at every observation point.",
    "note": "Stamps are assumed to come from one monotone clock. Liveness of memberlist itself (that announcements arrive) is the property's own premise.",
}
