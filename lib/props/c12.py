"""C12 - namespace names are translated wherever they occur."""
from .. import vfcore as V
from .. import walker as W

PROP = "C12"
TARGETS = ["generated/Schema_gen.vo", "theories/Schema/CheckProofs.vo", "theories/Schema/CurrentNs.vo"]
MODE, KINDS = "ns", ("NS",)


def walker_check(ck, prop, tier, seed, mode, kinds, proof_ok, what, extra_kinds=()):
    cases = 6 if tier == "quick" else 40
    err, diffs, stats = W.run(mode, seed, cases)
    if err:
        ck.obligation("differential walker run", False, err)
        ck.violation({"kind": "harness", "log": err, "broken": "walker harness"}, "harness failed: " + err[:300], no_input=True)
        return
    mine = [d for d in diffs if d.split()[0] in kinds]
    other = [d for d in diffs if d.split()[0] in extra_kinds]
    ck.cov.update({"evaluations": stats.get("messages", 0) * (4 if mode == "acl" else 1),
                   "distinct_nontrivial": stats.get({"ns": "ns_matched", "sa": "sa_matched", "acl": "acl_denied"}.get(mode, "ns_matched"), 0),
                   "traces_validated_against_impl": stats.get("messages", 0), "walker_stats": stats})
    ck.samples = [{"seed": seed, "cases_per_root_type": cases, "root_types": stats.get("roots"), "stats": stats}]
    ck.obligation("real %s = descriptor-driven reference on %d random populated messages of all %d root types" % (what, stats.get("messages", 0), stats.get("roots", 0)),
                  not mine, "%d differ; first: %s" % (len(mine), mine[0][:300] if mine else ""))
    ck.log("%s: %d messages, %d disagreements (%s)" % (mode, stats.get("messages", 0), len(mine), stats))
    if mine:
        d = mine[0]
        f = d.split()
        ck.violation({"kind": "walker", "mode": mode, "seed": seed, "cases": cases, "only": f[1], "line": d, "all": mine[:15],
                      "verdict": "the real walker's result differs from the translation the protobuf descriptors prescribe"}, d[:400])
    elif not proof_ok:
        data = {"kind": "unproved", "broken": ["theorems of coq/properties/%s.v no longer check against the regenerated schema" % prop],
                "search": "%d random populated messages (seed %d): real walker agrees with the descriptor-driven reference" % (stats.get("messages", 0), seed)}
        try:
            data["schema_disagreements"] = W.explain_schema_failure()
        except Exception as e:  # noqa: BLE001
            data["schema_disagreements"] = "could not evaluate: %s" % e
        # the schema check names fields; try harder on the differential side before giving up
        err, diffs2, stats2 = W.run(mode, seed + 1, 25)
        mine2 = [d for d in diffs2 if d.split()[0] in kinds] if not err else []
        if mine2:
            f = mine2[0].split()
            ck.violation({"kind": "walker", "mode": mode, "seed": seed + 1, "cases": 25, "only": f[1], "line": mine2[0], "all": mine2[:15],
                          "schema_disagreements": data["schema_disagreements"],
                          "verdict": "the real walker's result differs from the translation the protobuf descriptors prescribe"}, mine2[0][:400])
        else:
            ck.violation(data, "; ".join(data["broken"]) + " " + str(data["schema_disagreements"])[:300], no_input=True)


def path_check(ck, kinds, what):
    """every path from every root type to a namespace field (through lists, maps, oneofs, failure chains, event blobs),
    one minimal message per path"""
    err, diffs, stats = W.run("paths", 1, 1)
    mine = [d for d in diffs if d.split()[0] in kinds] if not err else []
    ck.obligation("every one of the %d paths to a namespace field (all %d root types, one message per path): %s" % (stats.get("paths", 0), stats.get("roots", 0), what),
                  not err and not mine and stats.get("paths", 0) > 1000, err or ("%d fail; first: %s" % (len(mine), mine[0][:300] if mine else "")))
    ck.cov.setdefault("walker_stats", {})["paths"] = stats
    if mine and not ck.violations:
        d = mine[0]
        ck.violation({"kind": "walker", "mode": "paths", "seed": 1, "cases": 1, "only": d.split()[1], "line": d, "all": mine[:15],
                      "verdict": "the real walker does not treat the namespace field at this path as the property requires"}, d[:400])


def check(tier, seed):
    ck = V.Check(PROP, tier, seed)
    ck.trusted = V.std_trusted() + [
        "schema translator: lib/schema_gen.py + go/overlay/interceptor/zz_verif_schema_test.go (Go reflection over the compiled packages joined with protobuf descriptors); "
        "ground-truth rule: string fields named namespace / *_namespace and NamespaceInfo.name; DataBlob fields classified by lib/oracle_blobs.json (unclassified fields fail the check)",
        "walker semantics (keilerkonzept/visit traversal, parent-field-name dispatch, blob decode / re-encode, skip shortcuts) are modelled at schema level and validated by the differential run "
        "against a descriptor-driven reference; protobuf-go and Temporal's event serializer are trusted",
    ]
    W.regenerate(ck)
    proof_ok = V.coq_stage(ck, PROP, TARGETS)
    walker_check(ck, PROP, tier, seed, MODE, KINDS, proof_ok, "visitNamespace")
    path_check(ck, ("PATH",), "a name at that position is translated")
    return ck.finish(rule="every request/response type of both services (308 root types) x random fully-populated messages (all oneof alternatives over the run, every event type, event blobs in proto3 and "
                          "JSON encoding, multi-link events, failure chains) x 4 mappings (simple, chain, swap, non-matching); non-trivial = messages in which at least one name was actually mapped")


def replay(data):
    if data.get("kind") != "walker":
        print("nothing to execute: " + "; ".join(data.get("broken", [])) + " " + str(data.get("schema_disagreements", "")))
        return 1
    err, diffs, stats = W.run(data["mode"], data["seed"], data["cases"], only=data["only"])
    print(err or "\n".join(diffs) or "(no disagreement)")
    print("REPRODUCED" if diffs else "not reproduced on the current tree")
    return 1 if diffs else 0


MANIFEST = {
    "technique": "Coq coverage theorem over a schema regenerated from the build (vm_compute certificate lifted by a generic lemma) + differential run of the real walker against a descriptor-driven reference",
    "text": "coq/generated/Schema_gen.v (981 Go struct types reachable from all 308 request/response types, joined with the protobuf descriptors, plus the walker's tables and skip list) is regenerated "
            "from the compiled packages on every run. C12_current_build evaluates in the kernel that the namespace walker translates exactly the descriptor-tagged namespace fields, decodes exactly "
            "the event-blob fields, and that every skipped event type / message reaches no such field; C12_generic lifts the boolean check to a statement about every field for any schema. The walker's "
            "dynamic semantics are validated by running the real visitNamespace and a descriptor-driven reference on random fully-populated messages of every root type.",
    "note": "Besides random population, every path from every root type to a namespace field (2682 paths: lists, maps, oneofs, failure chains, event blobs) is exercised with one message per path. The value-level semantics of the reflective traversal is validated differentially, not proved; ground truth = descriptor naming rule + explicit DataBlob oracle list.",
}
