"""C07 - LCM mode.  Proof: coq/properties/C07.v.  Correspondence: real common.GCD/LCM, mapShardIDUnique,
handleStream's LCM branch (captured outgoing metadata), DescribeCluster override, and the real workflow-id hash,
against the extracted model."""
import hashlib

from .. import linediff as L
from .. import vfcore as V

PROP = "C07"
TARGETS = ["theories/Lcm/Proofs.vo"]
GO_FILES = ["zz_verif_fakes_test.go", "zz_verif_lcm_test.go"]


def gcd(a, b):
    while b:
        a, b = b, a % b
    return a


def gen(tier, rng):
    lines = []
    small = 64 if tier == "quick" else 128
    for a in range(0, small + 1):
        for b in range(0, small + 1):
            lines.append("G %d %d" % (a, b))
    pows = [2 ** k for k in range(0, 15)]
    mixed = [3, 5, 6, 7, 10, 12, 24, 48, 96, 100, 192, 384, 768, 1000, 1536, 3072, 4095, 4097, 6144, 10000, 12288, 16383, 16384]
    vals = sorted(set(pows + mixed))
    pairs = [(a, b) for a in vals for b in vals]
    for a, b in pairs:
        lines.append("G %d %d" % (a, b))
    for _ in range(300):
        lines.append("G %d %d" % (rng.range(1, 100000), rng.range(1, 100000)))
    # streams: every LCM shard for small LCMs, both directions; sampled for large ones
    spairs = [(a, b) for a in range(1, 13) for b in range(1, 13)]
    nbig = 60 if tier == "quick" else 600
    for _ in range(nbig):
        spairs.append((rng.choice(vals), rng.choice(vals)))
    for a, b in spairs:
        l = a * b // gcd(a, b)
        if l > 2 ** 31 - 1:
            continue
        for inbound in (1, 0):
            init = b if inbound else a      # the initiator is the other cluster
            if l <= 160:
                shards = list(range(1, l + 1))
            else:
                shards = sorted({1, 2, l, l - 1, l // 2, a, b, a + 1, b + 1} | {rng.range(1, l) for _ in range(6)})
                shards = [s for s in shards if 1 <= s <= l]
            for s in shards:
                ci = (s - 1) % init + 1
                if rng.chance(1, 10):
                    ci = rng.range(1, max(1, init))
                lines.append("S %d %d %d %d %d" % (a, b, inbound, s, ci))
                lines.append("M %d %d %d" % (l, a if inbound else b, s))
            lines.append("D %d %d %d %d" % (a, b, inbound, a if inbound else b))
            # the same while the first upstream attempts fail: whatever count is finally reported must still be the LCM
            if a != b:
                for faults in ("U", "UU", "I", "D", "A", "R", "UI"):
                    lines.append("D %d %d %d %d %s" % (a, b, inbound, a if inbound else b, faults))
    # hash consistency through the real WorkflowIDToHistoryShard
    nw = 2000 if tier == "quick" else 20000
    for i in range(nw):
        a, b = rng.choice(vals), rng.choice(vals)
        l = a * b // gcd(a, b)
        if l > 2 ** 31 - 1:
            continue
        lines.append("W ns-%d wf-%d-%d %d %d" % (rng.below(50), i, rng.below(10 ** 9), l, a if rng.chance(1, 2) else b))
    return lines


def check(tier, seed):
    ck = V.Check(PROP, tier, seed)
    ck.trusted = V.std_trusted() + [
        "modelled not verified: Go int32 arithmetic written out as wrap32 / truncated division; farmhash is opaque (any non-negative h); "
        "getLCMParameters' expressions are mirrored in the sweep harness and read from the assembled servers end-to-end in the C15 matrix harness",
    ]
    proof_ok = V.coq_stage(ck, PROP, TARGETS)
    ok, log, exe = V.ocaml_build("lcm_driver", "ExtractLcm.v", "lcm_model.ml", "lcm_driver.ml")
    ck.obligation("extraction + driver build", ok, log[-2000:])
    if not ok:
        ck.violation({"kind": "build", "log": log[-4000:], "broken": "extraction of Lcm/Model.v"}, "model driver does not build", no_input=True)
        return ck.finish()
    rng = V.Rng(seed)
    lines = gen(tier, rng)
    err, impl = L.run_impl("proxy", GO_FILES, "TestVerifLcm", lines, "c07")
    if err:
        ck.obligation("correspondence run", False, err)
        ck.violation({"kind": "harness", "log": err, "broken": "C07 harness"}, "harness failed: " + err[:300], no_input=True)
        return ck.finish()
    # W lines: model is asked M L c sL for the shard the real hash produced
    mlines = []
    for l, o in zip(lines, impl):
        if l.startswith("W "):
            f, g = l.split(), o.split()
            mlines.append("M %s %s %s" % (f[3], f[4], g[1] if len(g) > 1 else "0"))
        elif l.startswith("D "):
            mlines.append(" ".join(l.split()[:5]))     # the fault pattern is not the model's business
        else:
            mlines.append(l)
    err, model = L.run_model(exe, [], mlines)
    if err:
        ck.obligation("model run", False, err)
        ck.violation({"kind": "harness", "log": err, "broken": "C07 model driver"}, err[:300], no_input=True)
        return ck.finish()
    diffs, mon = [], []
    kinds = {}
    distinct = set()
    for i, (l, o, m) in enumerate(zip(lines, impl, model)):
        k = l[0]
        kinds[k] = kinds.get(k, 0) + 1
        if k == "W":
            g = o.split()
            expect = "M " + (g[2] if len(g) > 2 else "?")
            if m != expect:
                diffs.append(i)
                mon.append(i)   # hash consistency is the property itself
        elif k == "D" and len(l.split()) > 5:
            # with upstream faults an error is an acceptable outcome; a count is not unless it is the model's
            if o != m and o != "D error":
                diffs.append(i)
        else:
            if o != m:
                diffs.append(i)
        # monitor (property on impl outputs directly)
        f = l.split()
        if k == "S":
            a, b, inbound, s, ci = map(int, f[1:])
            c = a if inbound else b
            want = "S 1 %d 2 %d" % (s, (s - 1) % c + 1)
            if o != want:
                mon.append(i)
            if a != b and s > min(a, b):
                distinct.add(l)
        elif k == "D":
            a, b = int(f[1]), int(f[2])
            if o != "D %d" % (a * b // gcd(a, b)) and not (len(f) > 5 and o == "D error"):
                mon.append(i)
        elif k == "G":
            a, b = int(f[1]), int(f[2])
            if a > 0 and b > 0 and a * b <= 2 ** 31 - 1 and o != "G %d %d" % (gcd(a, b), a * b // gcd(a, b)):
                mon.append(i)
            if a > 1 and b > 1 and gcd(a, b) not in (a, b):
                distinct.add(l)
    # ---- end-to-end: the parameters the assembled inbound / outbound servers really got (NewClusterConnection) ----
    E2E = ["zz_verif_fakes_test.go", "zz_verif_e2e_test.go"]
    STREAM = "/temporal.server.api.adminservice.v1.AdminService/StreamWorkflowReplicationMessages"
    DESCRIBE = "/temporal.server.api.adminservice.v1.AdminService/DescribeCluster"
    e_in, e_want = [], []
    for a, b in [(4, 6), (8, 4), (3, 5)] + ([(16, 12), (7, 7)] if tier == "thorough" else []):
        l = a * b // gcd(a, b)
        e_in.append("SETUP transport=tcp acl=none mode=lcm local=%d remote=%d" % (a, b)); e_want.append("SETUP ok")
        for side, c in (("remote", a), ("local", b)):      # remote callers are served by the local cluster (count a)
            e_in.append("CALL side=%s method=%s" % (side, DESCRIBE)); e_want.append("resp=shards=%d" % l)
            for s_ in range(1, l + 1):
                e_in.append("CALL side=%s method=%s cshard=1 sshard=%d" % (side, STREAM, s_))
                e_want.append("seen=2/%d>1/%d " % (s_, (s_ - 1) % c + 1))
    err, e_out = L.run_impl("proxy", E2E, "TestVerifE2E", e_in, "c07e", timeout=900)
    e_bad = []
    if err:
        ck.obligation("end-to-end wiring run", False, err)
    else:
        e_bad = [i for i, (o, wnt) in enumerate(zip(e_out, e_want)) if wnt not in o + " "]
        ck.obligation("end-to-end: assembled inbound/outbound servers describe lcm(local,remote) and forward (s, r) as the model says (%d calls)" % len(e_in), not e_bad,
                      "; ".join("%s -> %s (want %s)" % (e_in[i], e_out[i], e_want[i]) for i in e_bad[:3]))
        for i in e_bad:
            mon.append(len(lines))
            lines.append(e_in[i]); impl.append(e_out[i]); model.append(e_want[i])
    ck.cov["end_to_end_calls"] = len(e_in)
    ck.cov.update({"evaluations": len(lines), "distinct_nontrivial": len(distinct), "traces_validated_against_impl": len(lines),
                   "input_distribution": kinds})
    ck.samples = [{"op": lines[i], "impl": impl[i], "model": model[i]} for i in (0, len(lines) // 3, 2 * len(lines) // 3, len(lines) - 1)]
    ck.obligation("correspondence impl = extracted model on all operations", not diffs, "%d differing" % len(diffs))
    ck.obligation("monitor: forwarded (s, r), described count, gcd/lcm and hash consistency as the property states", not mon, "%d ops" % len(mon))
    ck.log("%d operations %s: %d differ from model, %d flagged by monitor" % (len(lines), kinds, len(diffs), len(mon)))
    if mon:
        i = mon[0]
        ck.violation({"kind": "op", "op": lines[i], "impl": impl[i], "model": model[i], "all_flagged": [lines[j] for j in mon[:20]],
                      "verdict": "implementation output contradicts the property statement"},
                     "LCM mode: %s gave %s" % (lines[i], impl[i]))
    elif diffs or not proof_ok:
        data = {"kind": "unproved", "broken": [], "search": "%d operations under the monitor: no failing input" % len(lines)}
        if not proof_ok:
            data["broken"].append("theorems of coq/properties/C07.v no longer check")
        if diffs:
            i = diffs[0]
            data["broken"].append("correspondence Lcm.Model <-> common.GCD/LCM, mapShardIDUnique, handleStream")
            data.update({"op": lines[i], "impl": impl[i], "model": model[i]})
        ck.violation(data, "; ".join(data["broken"]), no_input=True)
    return ck.finish(rule="all pairs <= 64 (gcd/lcm), powers of two and mixed composites <= 16384, every LCM shard for pairs <= 12 and sampled shards otherwise, both directions, "
                          "random workflow ids through the real hash; non-trivial = pair with neither count dividing the other / shard above the smaller count; distinct by op text")


def replay(data):
    ok, log, exe = V.ocaml_build("lcm_driver", "ExtractLcm.v", "lcm_model.ml", "lcm_driver.ml")
    if "op" not in data:
        print("nothing to execute: " + "; ".join(data.get("broken", [])))
        return 1
    err, impl = L.run_impl("proxy", GO_FILES, "TestVerifLcm", [data["op"]], "c07r")
    print(data["op"], "->", impl, "(recorded: %s, model: %s)" % (data.get("impl"), data.get("model")))
    bad = impl and impl[0] == data.get("impl") and impl[0] != data.get("model")
    print("REPRODUCED" if bad else "not reproduced on the current tree")
    return 1 if bad else 0


MANIFEST = {
    "technique": "Coq number-theory proof over an int32-faithful model + differential correspondence with the real functions and handleStream",
    "text": "Theorem C07_lcm_mode_consistent proves for all shard-count pairs in 1..46340 (no enumeration), both directions and every LCM shard s that the described count is "
            "lcm(local,remote), the stream is forwarded with initiator shard s and exactly one serving shard r in 1..count with no panic, and r owns every workflow hashing to s. "
            "The model (gcd/lcm with int32 wrap, MapShardID, the metadata rewrite, per-direction parameters) is compared on every run with the real common.GCD/LCM, mapShardIDUnique, "
            "handleStream (captured outgoing metadata), DescribeCluster override and the real workflow-id hash.",
    "note": "Trusted: Coq kernel, extraction, harness. Modelled not verified: farmhash (opaque non-negative h), gRPC metadata plumbing; counts above 46340 are outside the supported range "
            "(C07_outside_range_wraps shows the wrap).",
}
