"""C11 - RPCs travel only over live mux sessions and fail over between them."""
import hashlib
import os

from .. import linediff as L
from .. import vfcore as V
from .c10 import run_impl as pool_run_impl

PROP = "C11"
TARGETS = ["theories/Mcc/Proofs.vo"]
GO = ["zz_verif_pool_test.go", "zz_verif_mcc_test.go"]
REPLACE = {"transport/mux/session/zz_verif_access.go": os.path.join(V.ROOT, "go/overlay/transport/mux/session/zz_verif_access.go"),
           "transport/grpcutil/zz_verif_access.go": os.path.join(V.ROOT, "go/overlay/transport/grpcutil/zz_verif_access.go")}


def gen(rng, n):
    hs = [
        ["N 2 slow=0", "C", "A 1 1 1", "C", "A 1 1 1", "C", "K r", "C", "K l", "C", "A 1 1 1", "C", "E"],
        ["N 2 slow=1", "A 1 1 1", "KA l 1 1 1", "C", "KA r 1 1 1", "C", "E"],
        ["N 1 slow=1", "A 1 1 1", "C", "KA l 1 1 1", "C", "E"],
        ["N 3 slow=1", "A 1 1 1", "A 1 1 1", "KA r 1 1 1", "C", "KA l 1 1 1", "C", "K r", "K r", "K r", "C", "E"],
        # a transient ping failure on one session (it stays open and registered) coincides with changes of the session table
        ["N 3 slow=0", "A 1 1 1", "A 1 1 1", "H", "A 1 1 1", "C", "HR", "C", "K l", "C", "E"],
        ["N 2 slow=0", "A 1 1 1", "A 1 1 1", "H", "K l", "C", "HR", "C", "E"],
        # the channel goes idle between calls; sessions come and go while it is idle
        ["N 2 slow=0 idle=1", "A 1 1 1", "A 1 1 1", "C", "I", "C", "KA r 1 1 1", "I", "C", "K l", "I", "C", "E"],
        ["N 1 slow=0 idle=1", "A 1 1 1", "C", "I", "KA l 1 1 1", "I", "C", "E"],
    ]
    for _ in range(n):
        h = ["N %d slow=%d" % (rng.range(1, 3), rng.below(2))]
        for _ in range(rng.range(3, 9)):
            r = rng.below(100)
            if r < 35:
                h.append("A 1 1 1")
            elif r < 45:
                h.append("A %d %d %d" % (rng.below(2), rng.below(2), rng.choice([0, 1])))
            elif r < 60:
                h.append("K " + rng.choice(["r", "l"]))
            elif r < 75:
                h.append("KA %s 1 1 1" % rng.choice(["r", "l"]))
            else:
                h.append("C")
        h += ["C", "E"]
        hs.append(h)
    return hs


def run_impl(hs, tag):
    inp = os.path.join(V.WORK, "c11_%s.in" % tag)
    outp = os.path.join(V.WORK, "c11_%s.out" % tag)
    open(inp, "w").write("".join("\n".join(h) + "\n" for h in hs))
    if os.path.exists(outp):
        os.remove(outp)
    rc, out = V.go_test("transport/mux", GO, "^TestVerifMcc$", env={"VERIF_IN": inp, "VERIF_OUT": outp}, timeout=1800, replace=REPLACE)
    if rc != 0 or not os.path.exists(outp):
        return "mcc harness failed:\n" + out[-3000:], None
    res, cur = [], None
    for l in open(outp).read().split("\n"):
        if l.startswith("# scenario"):
            cur = []
        elif l == "#end":
            res.append(cur)
            cur = None
        elif cur is not None:
            cur.append(l)
    return None, res


def parse(l):
    d = {}
    for p in l.split()[1:]:
        k, v = p.split("=", 1)
        d[k] = v
    return d


def monitor(h, lines):
    bad = []
    for l in lines:
        if l.startswith("PANIC") or l.startswith("SETUP error"):
            bad.append(l[:300])
        if not l.startswith("= "):
            continue
        d = parse(l)
        if d["sessions"] != d["dialable"]:
            bad.append("dialable endpoints %r differ from the registered sessions %r" % (d["dialable"], d["sessions"]))
        if (d["can"] == "1") != (d["sessions"] != ""):
            bad.append("CanMakeCalls=%s with sessions %r" % (d["can"], d["sessions"]))
        if "rpc" in d:
            pre = d.get("pre", d["sessions"])
            if d["sessions"] != "" and pre != "" and d["rpc"] != "OK":
                bad.append("RPC failed (%s) although sessions were registered before (%r) and after (%r) the call" % (d["rpc"], pre, d["sessions"]))
            if d["sessions"] == "" and pre == "" and d["rpc"] == "OK":
                bad.append("RPC succeeded with no session registered")
    return bad


def model_ops(lines):
    """translate the observed session-table changes into Add / Remove operations for the Mcc model"""
    ops, prev = ["N"], []
    expect = []
    for l in lines:
        if not l.startswith("= "):
            continue
        d = parse(l)
        cur = [x for x in d["sessions"].split(",") if x]
        for x in prev:
            if x not in cur:
                ops.append("r " + x)
        for x in cur:
            if x not in prev:
                ops.append("a")
        prev = cur
        expect.append((len(ops) - 1, d["dialable"], d["can"]))
    return ops, expect


def check(tier, seed):
    ck = V.Check(PROP, tier, seed)
    ck.trusted = V.std_trusted() + [
        "modelled not verified (partial by nature): gRPC's resolver / balancer (fail-over between endpoints, resumption), yamux stream opening; the harness runs real RPCs (grpc health service served "
        "by each session's peer) in real time",
    ]
    proof_ok = V.coq_stage(ck, PROP, TARGETS)
    ok, log, exe = V.ocaml_build("mcc_driver", "ExtractMcc.v", "mcc_model.ml", "mcc_driver.ml")
    ck.obligation("extraction + driver build", ok, log[-1500:])
    rng = V.Rng(seed)
    hs = gen(rng, 8 if tier == "quick" else 150)
    err, impl = run_impl(hs, "main")
    if err:
        ck.obligation("correspondence run", False, err[:1500])
        if not V.crash_violation(ck, err, os.path.join(V.WORK, "c11_main.out"), hs, lambda h: run_impl([h], "crash")[0], "mux manager + MultiClientConn harness"):
            ck.violation({"kind": "harness", "log": err, "broken": "C11 harness"}, "harness failed: " + err[:300], no_input=True)
        return ck.finish()
    # a registered session whose Open() does not return: the dial parked on it must not hold up the next session-list update
    pout = os.path.join(V.WORK, "c11_park.out")
    if os.path.exists(pout):
        os.remove(pout)
    rc, out = V.go_test("transport/mux", GO, "^TestVerifMccParkedDial$", env={"VERIF_OUT": pout}, timeout=300, replace=REPLACE)
    pline = open(pout).read().strip() if rc == 0 and os.path.exists(pout) else "harness failed: " + out[-600:]
    park_ok = pline == "PARK entered=1 update=ok can=ok rpc=0"
    ck.obligation("while a dial is parked inside a live session's Open(), the next session-list update is applied, the state stays readable and calls resume over the other session", park_ok, pline)
    diffs, mon, distinct, rpcs = [], [], set(), 0
    for i, h in enumerate(hs):
        b = monitor(h, impl[i])
        if b:
            mon.append((i, b))
        rpcs += sum(1 for l in impl[i] if " rpc=" in l)
        if ok:
            ops, expect = model_ops(impl[i])
            e, mout = L.run_model(exe, [], ops)
            if e:
                diffs.append(i)
                continue
            for idx, dial, can in expect:
                d = parse(mout[idx])
                if d["dialable"] != dial or d["can"] != can:
                    diffs.append(i)
                    break
        if any(x.startswith("K") for x in h):
            distinct.add(hashlib.sha256("\n".join(h).encode()).hexdigest())
    ck.cov.update({"evaluations": len(hs), "distinct_nontrivial": len(distinct), "traces_validated_against_impl": len(hs), "rpcs_made": rpcs})
    ck.samples = [{"history": hs[0], "impl": impl[0]}]
    ck.obligation("correspondence: MultiClientConn's dialable keys / CanMakeCalls = Mcc model replaying the observed table changes", not diffs, "%d differ" % len(diffs))
    ck.obligation("monitor: dialable endpoints = registered sessions after every update; RPCs succeed over surviving sessions, report unavailable with none, resume with a new one", not mon, "%d histories" % len(mon))
    ck.log("%d histories, %d RPCs, %d differ from model, %d monitor hits" % (len(hs), rpcs, len(diffs), len(mon)))
    if not park_ok and not mon:
        ck.violation({"kind": "park", "impl": pline, "verdict": "a dial parked in a session's Open() held up the connection list (want PARK entered=1 update=ok can=ok rpc=0)"},
                     "C11: with a dial parked on session 0 and session 1 added: " + pline)
    if mon:
        i, b = mon[0]
        ck.violation({"kind": "history", "history": hs[i], "impl": impl[i], "verdict": b[0]}, b[0][:300])
    elif diffs or not proof_ok:
        data = {"kind": "unproved", "broken": [], "search": "%d histories under the monitor: no failing input" % len(hs)}
        if not proof_ok:
            data["broken"].append("theorems of coq/properties/C11.v no longer check")
        if diffs:
            data["broken"].append("correspondence Mcc.Model <-> multiMuxManager / MultiClientConn")
            data.update({"history": hs[diffs[0]], "impl": impl[diffs[0]]})
        ck.violation(data, "; ".join(data["broken"]), no_input=True)
    return ck.finish(rule="session additions and removals (remote and local closes, failed attempts, rapid remove-then-add of a slot while a slow listener is still being notified, the empty set) interleaved "
                          "with RPCs through the MultiClientConn; non-trivial = history with a removal")


def replay(data):
    if data.get("kind") == "park":
        pout = os.path.join(V.WORK, "c11_parkr.out")
        rc, out = V.go_test("transport/mux", GO, "^TestVerifMccParkedDial$", env={"VERIF_OUT": pout}, timeout=300, replace=REPLACE)
        pline = open(pout).read().strip() if rc == 0 and os.path.exists(pout) else out[-600:]
        print(pline)
        return 0 if pline == "PARK entered=1 update=ok can=ok rpc=0" else 1
    if "history" not in data:
        print("nothing to execute: " + "; ".join(data.get("broken", [])))
        return 1
    err, impl = run_impl([data["history"]], "replay")
    print(err or "\n".join(impl[0]))
    if data.get("kind") == "crash":
        return 1 if err else 0
    b = monitor(data["history"], impl[0]) if not err else ["harness error"]
    print("MONITOR", b)
    return 1 if b else 0


MANIFEST = {
    "technique": "Coq invariant (dialable keys = registered sessions for every add/remove sequence) + real-RPC harness over real yamux sessions with a MultiClientConn listener",
    "text": "Theorems C11_*: for every sequence of session additions and removals (ids never reused) the dialable key set and the resolver endpoints equal the registered session set, calls are possible iff "
            "a session is registered, a removed session is no longer dialable and a new one is dialable with the update that registers it. The model replays the table changes observed on the real "
            "multiMuxManager and must predict MultiClientConn's key set; real RPCs (gRPC health service behind every session) check fail-over, unavailability with no session and resumption, including "
            "a remove-then-add race against a slow listener.",
    "note": "A session whose health ping failed but which is still open stays dialable (events H / HR). Partial by nature: fail-over and resumption are gRPC balancer behaviour - exercised, and modelled as 'an RPC may use any key of the current map', not proved about gRPC. A dial parked inside a live session's Open() must not hold up the connection list (TestVerifMccParkedDial, driven through MultiClientConn.UpdateState with a blocking connection function).",
}
