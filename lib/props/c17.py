"""C17 - UTF-8 repair is invisible on valid data and faithful on invalid data."""
import os

from .. import linediff as L
from .. import vfcore as V

PROP = "C17"
TARGETS = ["theories/Repair/Utf8Proofs.vo"]
GO = ["zz_verif_repair_paths_test.go", "zz_verif_codec_test.go"]

VALID_RUNES = ["41", "7a", "c3a9", "e282ac", "f09f9880", "efbfbd", "00", "e0a080", "ed9fbf", "f48fbfbf", "c280"]
BAD_PIECES = ["ff", "fe", "80", "bf", "c0af", "c1bf", "e080", "e0809f", "eda080", "f08080", "f09f98", "f5808080", "f4908080", "e282", "c3", "f0", "e2"]


def utf8_lines(tier, rng):
    lines = ["U -"]
    for a in range(256):
        lines.append("U %02x" % a)
    step = 1 if tier == "thorough" else 3
    for a in range(0x80, 0x100):
        for b in range(0, 256, step):
            lines.append("U %02x%02x" % (a, b))
            lines.append("U %02x%02x" % (b, a))
    n = 3000 if tier == "quick" else 100000
    for _ in range(n):
        parts = []
        for _ in range(rng.range(1, 8)):
            parts.append(rng.choice(VALID_RUNES) if rng.chance(1, 2) else rng.choice(BAD_PIECES))
        lines.append("U " + "".join(parts))
    for _ in range(400 if tier == "quick" else 5000):
        k = rng.range(1, 13)
        chain = []
        for _ in range(k):
            parts = [rng.choice(VALID_RUNES) if rng.chance(2, 3) else rng.choice(BAD_PIECES) for _ in range(rng.range(0, 4))]
            chain.append("".join(parts) or "-")
        lines.append("R " + ",".join(chain))
    return lines


def run_codec(seed, cases):
    outp = os.path.join(V.WORK, "c17_codec.out")
    if os.path.exists(outp):
        os.remove(outp)
    rc, out = V.go_test("proto/compat", GO, "^TestVerifCodec$", env={"VERIF_OUT": outp, "VERIF_SEED": seed, "VERIF_CASES": cases}, timeout=1800)
    if rc != 0 or not os.path.exists(outp):
        return "codec harness failed:\n" + out[-3000:], [], {}
    lines = [l for l in open(outp).read().split("\n") if l]
    stats = {}
    for l in lines:
        if l.startswith("STATS"):
            for p in l.split()[1:]:
                k, v = p.split("=")
                stats[k] = int(v)
    return None, [l for l in lines if not l.startswith("STATS")], stats


def run_blobs():
    outp = os.path.join(V.WORK, "c17_blobs.out")
    if os.path.exists(outp):
        os.remove(outp)
    rc, out = V.go_test("interceptor", ["zz_verif_blobrepair_test.go"], "^TestVerifBlobRepair$", env={"VERIF_OUT": outp}, timeout=900)
    if rc != 0 or not os.path.exists(outp):
        return "blob repair harness failed:\n" + out[-2000:], [], {}
    diffs, stats = [], {}
    for l in open(outp).read().split("\n"):
        if l.startswith("STATS"):
            stats = {k: int(v) for k, v in (p.split("=") for p in l.split()[1:])}
        elif l:
            diffs.append(l)
    return None, diffs, stats


def check(tier, seed):
    ck = V.Check(PROP, tier, seed)
    ck.trusted = V.std_trusted() + [
        "modelled not verified: protobuf-go and gogo wire codecs (decoding the legacy re-encoding of a legacy-schema message yields the same tree; messages that use fields unknown to the 1.22 schema lose them "
        "on the repair path - outside the property's 'message from an older server' domain)",
    ]
    proof_ok = V.coq_stage(ck, PROP, TARGETS)
    ok, log, exe = V.ocaml_build("utf8_driver", "ExtractUtf8.v", "utf8_model.ml", "utf8_driver.ml")
    ck.obligation("extraction + driver build", ok, log[-1500:])
    rng = V.Rng(seed)
    problems = []
    lines = utf8_lines(tier, rng)
    err, impl = L.run_impl("proto/compat", GO, "TestVerifUtf8", lines, "c17u")
    err2, model = L.run_model(exe, [], lines, big_stack=True) if ok else ("no driver", [])
    if err or err2:
        ck.obligation("byte-level correspondence run", False, (err or err2)[:1500])
    else:
        bad = [i for i in range(len(lines)) if impl[i] != model[i]]
        ck.obligation("strings.ToValidUTF8 / utf8.ValidString / repairInvalidUTF8InFailure = model on %d strings and chains (all 1-byte strings, 2-byte strings with a non-ASCII byte, structured random)" % len(lines),
                      not bad, "; ".join("%s -> %s (model %s)" % (lines[i], impl[i], model[i]) for i in bad[:3]))
        if bad:
            problems.append(("corr", {"kind": "unproved", "broken": ["correspondence Utf8.to_valid_utf8 / repair_chain <-> strings.ToValidUTF8 / repairInvalidUTF8InFailure"],
                                      "line": lines[bad[0]], "impl": impl[bad[0]], "model": model[bad[0]]}, None))
        # monitor on the implementation: a repaired chain within depth is valid; valid input unchanged
        for i, l in enumerate(lines):
            if l.startswith("R "):
                chain = l.split()[1].split(",")
                f = impl[i].split()
                out = f[1].split(",")
                if len(chain) <= 10:
                    for m in out:
                        try:
                            bytes.fromhex("" if m == "-" else m).decode("utf-8")
                        except UnicodeDecodeError:
                            problems.append(("chain", {"kind": "utf8", "line": l, "impl": impl[i]}, "repair left an invalid message: %s -> %s" % (l, impl[i])))
                            break
                    if "err=1" in impl[i]:
                        problems.append(("chain", {"kind": "utf8", "line": l, "impl": impl[i]}, "repair failed within the supported depth: %s" % l))
                elif "err=0" in impl[i]:
                    problems.append(("chain", {"kind": "utf8", "line": l, "impl": impl[i]}, "chain deeper than supported accepted: %s" % l))
    cases = 1 if tier == "quick" else 12
    err, diffs, stats = run_codec(seed, cases)
    if err:
        ck.obligation("codec correspondence run", False, err[:1500])
        ck.violation({"kind": "harness", "log": err, "broken": "C17 codec harness"}, "harness failed: " + err[:300], no_input=True)
        return ck.finish()
    ck.obligation("RepairUTF8Codec.Unmarshal vs the standard codec: identical on valid data; invalid failure messages decode to the standard decode of the sanitised bytes with every other field intact; "
                  "unrepairable input is an error; truncated/garbled input errs iff the standard codec errs (%s)" % stats, not diffs, "%d disagree; first %s" % (len(diffs), diffs[0][:300] if diffs else ""))
    for d in diffs[:1]:
        problems.append(("codec", {"kind": "codec", "seed": seed, "cases": cases, "line": d, "all": diffs[:15]}, d[:400]))
    # the second repair site: history-event blobs inside messages, repaired by the translation interceptor's walker
    berr, bdiffs, bstats = run_blobs()
    ck.obligation("history blobs through the interceptor's walker: every subset of the events of a 1-3 event batch damaged (5 kinds of damage, top of the chain or in a cause): what is handed on decodes with "
                  "the standard serializer and equals the batch with only the offending bytes replaced; valid batches byte-identical (%s)" % bstats, not berr and not bdiffs and bstats.get("batches", 0) > 100,
                  berr or ("%d disagree; first %s" % (len(bdiffs), bdiffs[0][:300] if bdiffs else "")))
    for d in bdiffs[:1]:
        problems.append(("blob", {"kind": "blob", "line": d, "all": bdiffs[:15]}, d[:400]))
    stats = dict(stats)
    stats["blob_batches"] = bstats.get("batches", 0)
    total = len(lines) + sum(v for k, v in stats.items() if k != "roots")
    ck.cov.update({"evaluations": total, "distinct_nontrivial": stats.get("invalid-failure", 0) + stats.get("invalid-other-field", 0) + stats.get("chain-11", 0),
                   "traces_validated_against_impl": total, "codec_stats": stats, "utf8_strings": len(lines)})
    ck.samples = [{"utf8": lines[300], "impl": impl[300] if impl else None}, {"codec": stats}]
    concrete = [p for p in problems if p[0] != "corr"]
    if concrete:
        kind, data, text = concrete[0]
        data["verdict"] = "the repairing codec is not transparent on valid data / not faithful on invalid data / passed on something it could not repair"
        ck.violation(data, text)
    elif problems or not proof_ok:
        data = {"kind": "unproved", "broken": [], "search": "byte-level sweep and codec matrix: no failing input"}
        if not proof_ok:
            data["broken"].append("theorems of coq/properties/C17.v no longer check")
        for p in problems:
            data["broken"] += p[1].get("broken", [])
            data.update({k: v for k, v in p[1].items() if k not in ("broken", "kind")})
        ck.violation(data, "; ".join(data["broken"]), no_input=True)
    return ck.finish(rule="byte level: all 1-byte strings, 2-byte strings containing a non-ASCII byte, structured random strings mixing valid runes with truncated / overlong / surrogate / stray bytes, "
                          "failure chains of 1-12 causes; codec level: every conversion-table root x every failure path x {valid, invalid failure messages at several depths, chains of 10 and 11, "
                          "invalid UTF-8 in another field, truncated, garbled}; non-trivial = cases with invalid bytes")


def replay(data):
    if data.get("kind") == "codec":
        err, diffs, stats = run_codec(data["seed"], data["cases"])
        print(err or "\n".join(diffs[:10]) or "(no disagreement)")
        return 1 if diffs else 0
    if data.get("kind") == "blob":
        err, diffs, stats = run_blobs()
        print(err or "\n".join(diffs[:10]) or "(no disagreement)")
        return 1 if err or diffs else 0
    if data.get("kind") == "utf8" or data.get("line"):
        err, impl = L.run_impl("proto/compat", GO, "TestVerifUtf8", [data["line"]], "c17r")
        print(data["line"], "->", impl, "(recorded %s, model %s)" % (data.get("impl"), data.get("model")))
        return 1 if impl and impl[0] == data.get("impl") else 0
    print("nothing to execute: " + "; ".join(data.get("broken", [])))
    return 1


MANIFEST = {
    "technique": "Coq proofs about a byte-level model of ToValidUTF8 and the failure-chain repair + correspondence with Go's implementation and differential run of the real codec against the standard codec",
    "text": "Theorems C17_*: for every byte string the repaired string is valid UTF-8, valid strings are returned byte for byte (unchanged iff valid), the validity test is correct; for every failure chain "
            "within the supported depth the repair returns no error, all messages valid, changed iff something was invalid, and beyond the depth it reports an error. The model is compared with "
            "strings.ToValidUTF8 / utf8.ValidString / repairInvalidUTF8InFailure on exhaustive short strings and structured random ones. The codec-level clauses are decided by running the real "
            "RepairUTF8Codec against the standard codec on the sanitised bytes for every conversion-table root and failure path.",
    "note": "Both repair sites are exercised: the gRPC codec and the history-blob path of the translation interceptor (every subset of a 1-3 event batch damaged). Wire codecs are trusted. Post-1.22 fields are dropped by the legacy round trip on the repair path (observation outside the property's domain).",
}
