"""C01 - routing never acknowledges what the target has not confirmed (no stream failures)."""
from .. import routing as R
from .. import vfcore as V

PROP = "C01"
TARGETS = ["theories/Routing/Witness.vo", "theories/Routing/Basic.vo"]


def nontrivial(h, ev):
    # >= 2 targets, and an ack arrives while another target still has unacknowledged tasks
    f = h[0].split()
    return int(f[2]) >= 2 and sum(1 for l in h if l.startswith("A ")) >= 2 and sum(1 for l in h if l.startswith("S ") and l.split()[3] != "0") >= 2


def check(tier, seed):
    ck = V.Check(PROP, tier, seed)
    ck.trusted = V.std_trusted() + R.ROUTING_TRUSTED
    ck.assumptions = ["sources follow Temporal's StreamSender contract (ids increase, watermarks monotone and above ids)",
                      "a target's inclusive low watermark never exceeds the exclusive high watermark it was sent"]
    proof_ok = V.coq_stage(ck, PROP, TARGETS)

    def vary(i, r):
        return {"big": i % 4 == 0, "liveness": False}
    R.engine(ck, PROP, tier, seed, {"faults": False, "vary": vary}, ("C01",), 160, 8000, proof_ok, nontrivial,
             "random histories", project=("K",),
             extra_histories=lambda r, exe, tier: [R.gen_long_ring(r.fork("ring%d" % i), exe) for i in range(1 if tier == "quick" else 6)])
    return ck.finish(rule="histories of 1-3 sources x 1-4 targets generated from VERIF_SEED through the extracted model (Temporal-like sources, multi-task and watermark batches, "
                          "prompt / lagging / arbitrary / repeated acks, late-connecting and stalled targets); non-trivial = >= 2 targets, >= 2 task batches and >= 2 acks; distinct by sha256")


replay = R.replay

MANIFEST = {
    "technique": "Coq theorems over an action-system model of routing mode (ack aggregation, registration, refutation witness) + differential correspondence and safe-ack monitor on the real streamRouting in a synctest bubble",
    "text": "The routing model is an action system whose atomic actions are the code's critical sections and channel operations; its executable scheduler is extracted and compared, event by event, "
            "with the real proxyStreamSender/Receiver pairs and shardManager driven through in-memory streams (canonical per-stream observables). Theorems in coq/properties/C01.v: the executable "
            "semantics only performs actions of the system; the value sent upstream is below the value of every target in the per-target map including merely registered ones; registration covers every "
            "target handed a task; the pre-fix code is refuted by a concrete history (F1) that is safe now. The executable safe-ack monitor (the property itself) is applied to every implementation trace. "
            "The end-to-end invariant over all action sequences is stated in DESIGN.md appendix A; the part proved so far is listed in the evidence obligations.",
    "note": "Trusted: Coq kernel, extraction, the synctest harness and its fake streams, generator disciplines. Modelled not verified: gRPC/Go runtime semantics, single proxy instance (no memberlist).",
}
