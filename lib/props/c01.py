"""C01 - routing never acknowledges what the target has not confirmed (no stream failures)."""
from .. import routing as R
from .. import vfcore as V

PROP = "C01"
TARGETS = ["theories/Routing/Witness.vo", "theories/Routing/Basic.vo", "theories/Routing/Inv.vo"]


def nontrivial(h, ev):
    # >= 2 targets, and an ack arrives while another target still has unacknowledged tasks
    f = h[0].split()
    return int(f[2]) >= 2 and sum(1 for l in h if l.startswith("A ")) >= 2 and sum(1 for l in h if l.startswith("S ") and l.split()[3] != "0") >= 2


def check(tier, seed):
    ck = V.Check(PROP, tier, seed)
    ck.trusted = V.std_trusted() + R.ROUTING_TRUSTED
    ck.assumptions = ["sources follow Temporal's StreamSender contract (ids increase, watermarks monotone and above ids)",
                      "a target's inclusive low watermark never exceeds the exclusive high watermark it was sent"]
    proof_ok = V.coq_stage(ck, PROP, TARGETS)

    def vary(i, r):
        return {"big": i % 4 == 0, "liveness": False}
    R.engine(ck, PROP, tier, seed, {"faults": False, "vary": vary}, ("C01",), 160, 8000, proof_ok, nontrivial,
             "random histories", project=("K",),
             extra_histories=lambda r, exe, tier: [R.gen_long_ring(r.fork("ring%d" % i), exe) for i in range(1 if tier == "quick" else 6)])
    return ck.finish(rule="histories of 1-3 sources x 1-4 targets generated from VERIF_SEED through the extracted model (Temporal-like sources, multi-task and watermark batches, "
                          "prompt / lagging / arbitrary / repeated acks, late-connecting and stalled targets); non-trivial = >= 2 targets, >= 2 task batches and >= 2 acks; distinct by sha256")


replay = R.replay

MANIFEST = {
    "technique": "Coq invariant proof over all action sequences of the routing transition system (end-to-end safe-ack theorem, 14-clause invariant, ~1400 lines) + refutation witness for the "
                 "pre-fix code + differential correspondence and safe-ack monitor on the real streamRouting in a synctest bubble",
    "text": "The routing model is an action system whose atomic actions are the code's critical sections and channel operations; its executable scheduler is extracted and compared, event by event, "
            "with the real proxyStreamSender/Receiver pairs and shardManager driven through in-memory streams (canonical per-stream observables). C01_safe_acks (coq/properties/C01.v, proved in theories/Routing/Inv.v): for every number of "
            "sources and targets and every sequence of actions - every interleaving of all goroutines' critical sections - with well-behaved sources and no stream failure, every acknowledgement sent "
            "to a source is safe when it is sent (stated with the same executable monitor that is applied to implementation traces); C01_safe_acks_executable transfers it to the extracted event-level "
            "semantics; the invariant (placement and order of every received task, registration, goodness of every value in flight, ring bookkeeping) holds in every reachable state. The pre-fix code "
            "is refuted by a concrete history (F1) that is safe now.",
    "note": "Hypotheses of the theorem: sources follow Temporal's sender contract (wf_act), a target connects once and no stream fails (failures are C04, where the statement is refuted). Trusted: "
            "Coq kernel, extraction, the synctest harness and its fake streams, generator disciplines. Modelled not verified: gRPC/Go runtime semantics, single proxy instance (no memberlist); the ring "
            "buffer is abstract here and refined in C05.",
}
