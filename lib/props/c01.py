"""C01 - routing never acknowledges what the target has not confirmed (no stream failures)."""
from .. import routing as R
from .. import vfcore as V

PROP = "C01"
TARGETS = ["theories/Routing/Witness.vo", "theories/Routing/Basic.vo", "theories/Routing/Inv.vo"]


def nontrivial(h, ev):
    # >= 2 targets, and an ack arrives while another target still has unacknowledged tasks
    f = h[0].split()
    return int(f[2]) >= 2 and sum(1 for l in h if l.startswith("A ")) >= 2 and sum(1 for l in h if l.startswith("S ") and l.split()[3] != "0") >= 2


def rng_for(seed, k):
    return V.Rng(seed).fork("lag%d" % k)


def check(tier, seed):
    ck = V.Check(PROP, tier, seed)
    ck.trusted = V.std_trusted() + R.ROUTING_TRUSTED
    ck.assumptions = ["sources follow Temporal's StreamSender contract (ids increase, watermarks monotone and above ids)",
                      "a target's inclusive low watermark never exceeds the exclusive high watermark it was sent"]
    proof_ok = V.coq_stage(ck, PROP, TARGETS)

    def vary(i, r):
        return {"big": i % 4 == 0, "liveness": False}
    R.engine(ck, PROP, tier, seed, {"faults": False, "vary": vary}, ("C01",), 160, 8000, proof_ok, nontrivial,
             "random histories", project=("K",),
             extra_histories=lambda r, exe, tier: [R.gen_long_ring(r.fork("ring%d" % i), exe) for i in range(1 if tier == "quick" else 6)])
    # honest, lagging targets (monitor only: the acknowledgement values are whatever the implementation's stream carried): a
    # target acknowledges the greatest watermark it has been sent - task-bearing, watermark-only or keep-alive - and the
    # acknowledgement arrives after further tasks have been forwarded
    lag = []
    for k in range(6 if tier == "quick" else 60):
        r = rng_for(seed, k)
        ns_, nt_ = 1 + k % 2, 1 + (k // 2) % 2
        h = ["I %d %d" % (ns_, nt_)] + ["C %d" % t for t in range(nt_)]
        nid = [1000 * (s_ + 1) + r.range(1, 50) for s_ in range(ns_)]
        cnt = 0
        for rnd in range(r.range(2, 5)):
            for s_ in range(ns_):
                n = r.range(1, 3)
                parts = []
                for _ in range(n):
                    cnt += 1
                    parts.append("%d %d q%d" % (nid[s_], r.below(nt_), cnt))
                    nid[s_] += 1
                h.append("S %d %d %d %s" % (s_, nid[s_], n, " ".join(parts)))
            t = r.below(nt_)
            h += ["AQ %d" % t]
            for s_ in range(ns_):
                # two or three further tasks for that target: the last one's id is the acknowledgement value, the ones before it are claimed
                n = r.range(2, 3)
                parts = []
                for _ in range(n):
                    cnt += 1
                    parts.append("%d %d q%d" % (nid[s_], t, cnt))
                    nid[s_] += 1
                h.append("S %d %d %d %s" % (s_, nid[s_], n, " ".join(parts)))
            h += ["AF %d" % t]
        h.append("E")
        lag.append(h)
    lerr, limpl = R.run_impl(lag, "c01lag")
    if lerr:
        ck.obligation("honest lagging targets run", False, lerr[:1500])
    else:
        lbad = []
        for h, ev in zip(lag, limpl):
            v, _ = R.monitor(h, ev)
            v = [x for x in v if x[0] == "C01"]
            if v:
                lbad.append((h, v))
        ck.obligation("targets that acknowledge the greatest watermark they were sent (keep-alives included), the acknowledgement arriving after further tasks were forwarded (%d histories): "
                      "no source is told more than its targets had confirmed" % len(lag), not lbad, "%d histories" % len(lbad))
        if lbad and not ck.violations:
            h, v = lbad[0]
            ck.violation({"kind": "lagging", "history": h, "verdict": [str(x) for x in v[:3]]}, "C01 with an honest lagging target: " + v[0][2])
    return ck.finish(rule="histories of 1-3 sources x 1-4 targets generated from VERIF_SEED through the extracted model (Temporal-like sources, multi-task and watermark batches, "
                          "prompt / lagging / arbitrary / repeated acks, late-connecting and stalled targets); non-trivial = >= 2 targets, >= 2 task batches and >= 2 acks; distinct by sha256")


def replay(data):
    if data.get("kind") == "lagging":
        err, impl = R.run_impl([data["history"]], "c01lagr")
        if err:
            print(err)
            return 1
        v, _ = R.monitor(data["history"], impl[0])
        v = [x for x in v if x[0] == "C01"]
        for x in v[:10]:
            print(x)
        print("REPRODUCED" if v else "not reproduced on the current tree")
        return 1 if v else 0
    return R.replay(data)


MANIFEST = {
    "technique": "Coq invariant proof over all action sequences of the routing transition system (end-to-end safe-ack theorem, 14-clause invariant, ~1400 lines) + refutation witness for the "
                 "pre-fix code + differential correspondence and safe-ack monitor on the real streamRouting in a synctest bubble",
    "text": "The routing model is an action system whose atomic actions are the code's critical sections and channel operations; its executable scheduler is extracted and compared, event by event, "
            "with the real proxyStreamSender/Receiver pairs and shardManager driven through in-memory streams (canonical per-stream observables). C01_safe_acks (coq/properties/C01.v, proved in theories/Routing/Inv.v): for every number of "
            "sources and targets and every sequence of actions - every interleaving of all goroutines' critical sections - with well-behaved sources and no stream failure, every acknowledgement sent "
            "to a source is safe when it is sent (stated with the same executable monitor that is applied to implementation traces); C01_safe_acks_executable transfers it to the extracted event-level "
            "semantics; the invariant (placement and order of every received task, registration, goodness of every value in flight, ring bookkeeping) holds in every reachable state. The pre-fix code "
            "is refuted by a concrete history (F1) that is safe now.",
    "note": "Hypotheses of the theorem: sources follow Temporal's sender contract (wf_act), a target connects once and no stream fails (failures are C04, where the statement is refuted). Trusted: "
            "Coq kernel, extraction, the synctest harness and its fake streams, generator disciplines. Modelled not verified: gRPC/Go runtime semantics, single proxy instance (no memberlist); the ring "
            "buffer is abstract here and refined in C05. Implementation-only obligation: honest lagging targets (the acknowledgement is the greatest watermark the target was sent, keep-alives included, and arrives after further tasks were forwarded).",
}
