"""C14 - search-attribute keys are renamed consistently and values are untouched."""
from .. import vfcore as V
from .. import walker as W
from .c12 import walker_check, replay  # noqa: F401

PROP = "C14"
TARGETS = ["generated/Schema_gen.vo", "theories/Schema/CheckProofs.vo", "theories/Schema/CurrentSa.vo", "theories/Schema/SearchAttr.vo"]


def check(tier, seed):
    ck = V.Check(PROP, tier, seed)
    ck.trusted = V.std_trusted() + ["schema translator and descriptor oracle as for C12; a search-attribute container = a field of message type common.SearchAttributes or a "
                                    "map<string,Payload> field named search_attributes"]
    ck.assumptions = ["key sets do not collide with mapping targets (containers whose renamed keys collide are outside the property and skipped, counted in walker_stats)"]
    W.regenerate(ck)
    proof_ok = V.coq_stage(ck, PROP, TARGETS)
    walker_check(ck, PROP, tier, seed, "sa", ("SA",), proof_ok, "visitSearchAttributes")
    # the method filter and the direction of both translators, through the real TranslationInterceptor
    cases = 2 if tier == "quick" else 12
    err, diffs, stats = W.run("icpt", seed, cases)
    mine = [d for d in diffs if d.split()[0] == "ICPT"] if not err else []
    ck.obligation("real TranslationInterceptor (namespace + search-attribute translators) = reference on %d unary calls of both services: keys renamed on AdminService calls only, "
                  "requests with the mapping and responses with its inverse" % stats.get("icpt_calls", 0), not err and not mine and stats.get("icpt_workflow", 0) > 0,
                  err or ("%d differ; first: %s" % (len(mine), mine[0][:300] if mine else "")))
    ck.cov.setdefault("walker_stats", {})["icpt"] = stats
    if mine and not ck.violations:
        d = mine[0]
        ck.violation({"kind": "walker", "mode": "icpt", "seed": seed, "cases": cases, "only": d.split()[1], "line": d, "all": mine[:15],
                      "verdict": "the interceptor translated (or failed to translate) search-attribute keys where the property says otherwise"}, d[:400])
    return ck.finish(rule="as C12 with search-attribute key mappings (simple, chain, swap, non-matching) and key pools that include mapped keys, prefixes and unmapped keys; history-event blobs included; "
                          "non-trivial = messages in which a key was renamed")


MANIFEST = {
    "technique": "Coq theorems on key renaming (values untouched, unmapped keys kept, no loss without collision) + schema coverage certificate + differential run against a descriptor-driven reference",
    "text": "SearchAttr.v proves, for every key list and every mapping, that translateIndexedFields' model keeps every value, renames exactly the mapped keys, and loses nothing when renamed keys do not "
            "collide; C14_current_build evaluates on the regenerated schema that the walker handles exactly the search-attribute containers (typed container and bare map forms) and the same event blobs; "
            "the method filter excludes every WorkflowService method. The real visitSearchAttributes is compared with a descriptor-driven reference on random populated messages incl. chain/swap mappings.",
    "note": "AddSearchAttributesRequest / RemoveSearchAttributesRequest carry search_attributes of other types: the walker logs an error and forwards them untranslated (observation, listed in the evidence).",
}
