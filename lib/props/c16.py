"""C16 - requests naming a namespace outside the allow-list are refused."""
from .. import linediff as L
from .. import vfcore as V
from .. import walker as W

PROP = "C16"
TARGETS = ["generated/Schema_gen.vo", "theories/Schema/CheckProofs.vo", "theories/Schema/CurrentNs.vo", "theories/Policy/Proofs.vo"]
E2E = ["zz_verif_fakes_test.go", "zz_verif_e2e_test.go"]
WF = "/temporal.api.workflowservice.v1.WorkflowService/"
ADMIN = "/temporal.server.api.adminservice.v1.AdminService/"


def check(tier, seed):
    ck = V.Check(PROP, tier, seed)
    ck.trusted = V.std_trusted() + ["schema translator and descriptor oracle as for C12", "gRPC interceptor chaining; the e2e fake clusters"]
    ck.assumptions = ["an empty namespace string in a request is also refused under a non-empty allow-list (stricter than the property; part of the model and of the reference)"]
    W.regenerate(ck)
    proof_ok = V.coq_stage(ck, PROP, TARGETS)
    problems = []
    # (a) the real isNamespaceAccessAllowed and AccessControlInterceptor.Intercept vs the descriptor-driven reference, every request type
    cases = 3 if tier == "quick" else 30
    err, diffs, stats = W.run("acl", seed, cases)
    if err:
        ck.obligation("differential access-control run", False, err)
        ck.violation({"kind": "harness", "log": err, "broken": "walker harness"}, "harness failed: " + err[:300], no_input=True)
        return ck.finish()
    from .c15 import aclsize_obligation
    aclsize_obligation(ck, "namespace", "namespace")
    mine = [d for d in diffs if d.split()[0] in ("ACL", "ACLI")]
    ck.obligation("real isNamespaceAccessAllowed / Intercept = descriptor-driven reference on %d (request, allow-list) cases over all request types" % stats.get("acl_cases", 0),
                  not mine, "%d differ; first %s" % (len(mine), mine[0][:300] if mine else ""))
    for d in mine[:1]:
        problems.append(("walker", {"kind": "walker", "mode": "acl", "seed": seed, "cases": cases, "only": d.split()[1], "line": d}, d[:400]))
    from .c12 import path_check
    path_check(ck, ("PATHACL",), "for request types, a forbidden name at that position is refused")
    # (b) end to end: after translation, independent of the bypass header, list filter
    ok, log, exe = V.ocaml_build("policy_driver", "ExtractPolicy.v", "policy_model.ml", "policy_driver.ml")
    ck.obligation("extraction + driver build", ok, log[-1500:])
    D, LST, IMP = WF + "DescribeNamespace", WF + "ListNamespaces", ADMIN + "ImportWorkflowExecution"
    script = [
        ("SETUP transport=tcp acl=present methods=- namespaces=loc,loc2 nsmap=loc:rem", "SETUP ok", "P present - loc,loc2", None),
        ("CALL side=remote method=%s ns=rem" % D, "code=0 reached=1 seen=loc", "Q workflow DescribeNamespace 0 loc", "Q 1"),
        ("CALL side=remote method=%s ns=other" % D, "code=7 reached=0", "Q workflow DescribeNamespace 0 other", "Q 0"),
        ("CALL side=remote method=%s ns=loc2" % D, "code=0 reached=1 seen=loc2", "Q workflow DescribeNamespace 0 loc2", "Q 1"),
        # the bypass header switches translation off, never the check: rem stays rem and is refused, loc is allowed
        ("CALL side=remote method=%s ns=rem bypass=1" % D, "code=7 reached=0", "Q workflow DescribeNamespace 0 rem", "Q 0"),
        ("CALL side=remote method=%s ns=loc bypass=1" % D, "code=0 reached=1 seen=loc", "Q workflow DescribeNamespace 0 loc", "Q 1"),
        ("CALL side=remote method=%s ns=other bypass=1" % D, "code=7 reached=0", "Q workflow DescribeNamespace 0 other", "Q 0"),
        ("CALL side=remote method=%s ns=other" % IMP, "code=7 reached=0", "Q admin ImportWorkflowExecution 0 other", "Q 0"),
        ("CALL side=remote method=%s ns=rem" % IMP, "code=0 reached=1 seen=loc", "Q admin ImportWorkflowExecution 0 loc", "Q 1"),
        ("CALL side=remote method=%s" % LST, "resp=list:rem,loc2,rem", "F loc,other,loc2,zzz,loc", "F loc,loc2,loc"),
    ]
    # the list filter on every arrangement of allowed (loc, loc2) and disallowed names up to length 4, incl. runs of disallowed ones
    import itertools
    for n in range(0, 5):
        for arr in itertools.product(["loc", "x", "loc2", "y"], repeat=n):
            if n == 4 and arr[0] in ("loc2", "y"):
                continue   # symmetric to the arrangements starting with loc / x
            up = ",".join(arr) or "-"
            want = ",".join(("rem" if a == "loc" else a) for a in arr if a in ("loc", "loc2"))
            script.append(("CALL side=remote method=%s list=%s" % (LST, up), "resp=list:%s " % want if want else "resp=list: ", "F %s" % (",".join(arr) or "-"), "F %s" % (",".join(a for a in arr if a in ("loc", "loc2")) or "-")))
    script += [
        ("CALL side=local method=%s ns=anything" % D, "code=0 reached=1", "Q other DescribeNamespace 0 anything", "Q 1"),
        ("SETUP transport=tcp acl=present methods=- namespaces=- nsmap=-", "SETUP ok", "P present - -", None),
        ("CALL side=remote method=%s ns=whatever" % D, "code=0 reached=1 seen=whatever", "Q workflow DescribeNamespace 0 whatever", "Q 1"),
        ("CALL side=remote method=%s" % LST, "resp=list:loc,other,loc2,zzz,loc", "F loc,other,loc2,zzz,loc", "F loc,other,loc2,zzz,loc"),
        ("SETUP transport=mux acl=present methods=- namespaces=loc nsmap=-", "SETUP ok", "P present - loc", None),
        ("CALL side=remote method=%s ns=loc" % D, "code=0 reached=1 seen=loc", "Q workflow DescribeNamespace 0 loc", "Q 1"),
        ("CALL side=remote method=%s ns=other" % D, "reached=0", "Q workflow DescribeNamespace 0 other", "Q 0"),
    ]
    err, e_out = L.run_impl("proxy", E2E, "TestVerifE2E", [s[0] for s in script], "c16e", timeout=900)
    err2, m_out = L.run_model(exe, [], [s[2] for s in script]) if ok else ("no driver", [])
    if err or err2:
        ck.obligation("end-to-end namespace policy run", False, err or err2)
    else:
        bad = [i for i, s in enumerate(script) if s[1] not in e_out[i]]
        badm = [i for i, s in enumerate(script) if s[3] is not None and m_out[i] != s[3]]
        ck.obligation("end-to-end: refusal after translation, unaffected by the bypass header, allowed names forwarded, ListNamespaces filtered (%d steps)" % len(script), not bad,
                      "; ".join("%s -> %s (want %s)" % (script[i][0], e_out[i], script[i][1]) for i in bad[:3]))
        ck.obligation("the extracted decision function / list filter predicts the same answers", not badm, str([(script[i][2], m_out[i]) for i in badm[:3]]))
        for i in bad[:1]:
            j = i
            while not script[j][0].startswith("SETUP"):
                j -= 1
            problems.append(("e2e", {"kind": "e2e", "lines": [script[j][0], script[i][0]] if i != j else [script[i][0]], "impl": e_out[i], "want": script[i][1]},
                             "%s ; %s -> %s" % (script[j][0], script[i][0], e_out[i])))
        if badm and not bad:
            problems.append(("corr", {"kind": "unproved", "broken": ["correspondence Policy.Model <-> end-to-end decisions"]}, None))
    ck.cov.update({"evaluations": stats.get("acl_cases", 0) + stats.get("acl_single_position_cases", 0) + len(script), "distinct_nontrivial": stats.get("acl_denied", 0), "traces_validated_against_impl": stats.get("acl_cases", 0) + len(script),
                   "walker_stats": stats})
    ck.samples = [{"step": script[2][0], "impl": e_out[2] if e_out else None}, {"acl_stats": stats}]
    concrete = [p for p in problems if p[0] != "corr"]
    if concrete:
        kind, data, text = concrete[0]
        data["verdict"] = "a request naming a namespace outside the allow-list was not refused (or an allowed one was), or the namespace list was not filtered"
        ck.violation(data, text)
    elif problems or not proof_ok:
        data = {"kind": "unproved", "broken": [], "search": "%d (request, allow-list) cases over every request type + the end-to-end script: no failing input" % stats.get("acl_cases", 0)}
        if not proof_ok:
            data["broken"].append("theorems of coq/properties/C16.v no longer check")
            try:
                data["schema_disagreements"] = W.explain_schema_failure()
            except Exception as e:  # noqa: BLE001
                data["schema_disagreements"] = str(e)
        for p in problems:
            data["broken"] += p[1].get("broken", [])
        ck.violation(data, "; ".join(data["broken"]), no_input=True)
    return ck.finish(rule="every request type of both services x random populated messages (namespace fields at every path incl. inside proto3- and JSON-encoded history blobs, links, failure chains) x allow-lists "
                          "{all names, one name, two names, empty}; names allowed / forbidden / empty individually and in combination; plus end-to-end script with and without translation and bypass header; "
                          "non-trivial = cases the policy must refuse")


def replay(data):
    if data.get("kind") == "aclsize":
        from .c15 import replay_aclsize
        return replay_aclsize(data)
    if data.get("kind") == "walker":
        err, diffs, stats = W.run(data["mode"], data["seed"], data["cases"], only=data["only"])
        print(err or "\n".join(diffs) or "(no disagreement)")
        return 1 if diffs else 0
    if data.get("kind") == "e2e":
        err, out = L.run_impl("proxy", E2E, "TestVerifE2E", data["lines"], "c16r")
        print(data["lines"], "->", out, "want", data.get("want"))
        bad = bool(out) and data.get("want", "") not in out[-1]
        print("REPRODUCED" if bad else "not reproduced on the current tree")
        return 1 if bad else 0
    print("nothing to execute: " + "; ".join(data.get("broken", [])))
    return 1


MANIFEST = {
    "technique": "Coq theorems (decision function refuses any foreign name; walker coverage certificate on the regenerated schema; list filter exact) + differential run over every request type + end-to-end script",
    "text": "C16_foreign_namespace_denied proves for all requests, allow-lists and reported name lists that one foreign name suffices for refusal, independent of the bypass header; "
            "C16_walker_sees_every_namespace_field certifies on the regenerated schema that the names reported to the policy are exactly the descriptor-tagged namespace fields at every path incl. event "
            "blobs; C16_list_filter_* characterise the ListNamespaces filter. The real isNamespaceAccessAllowed and Intercept are compared with a descriptor-driven reference on random populated "
            "requests of every request type (incl. JSON-encoded blobs), and an end-to-end script checks translation-before-check, bypass-header independence and the list filter on a running proxy.",
    "note": "The namespace-list filter is run end to end on every arrangement of allowed / disallowed names up to length 4; a forbidden name is placed at every path of every request type. Empty namespace strings are refused too (stricter than the property). ListNamespaces with a nil NamespaceInfo in the upstream response would panic (observation, outside the property).",
}
