"""C13 - translation touches nothing else, is invertible and points the right way."""
from .. import linediff as L
from .. import vfcore as V
from .. import walker as W

PROP = "C13"
TARGETS = ["generated/Schema_gen.vo", "theories/Schema/CheckProofs.vo", "theories/Schema/CurrentNs.vo", "theories/Schema/BiMap.vo"]
E2E = ["zz_verif_fakes_test.go", "zz_verif_e2e_test.go"]
DESCRIBE_NS = "/temporal.api.workflowservice.v1.WorkflowService/DescribeNamespace"


def bimap_lines(rng, n):
    lines = ["B -", "B 1:2", "B 1:2,1:3", "B 1:2,3:2", "B 1:2,2:3", "B 1:2,2:1", "B 1:1", "B 1:2,2:3,3:1", "B 1:2,3:4,1:4",
             "B 1:1,2:1", "B 1:1,1:2", "B 2:1,1:1", "B 1:1,2:2", "B 1:1,2:2,3:1", "B 3:3,3:3"]
    for _ in range(n):
        k = rng.range(1, 6)
        pairs = ["%d:%d" % (rng.range(1, 6), rng.range(1, 6)) for _ in range(k)]
        lines.append("B " + ",".join(pairs))
    return lines


DESCRIBE_MS = "/temporal.server.api.adminservice.v1.AdminService/DescribeMutableState"


def check(tier, seed):
    ck = V.Check(PROP, tier, seed)
    ck.trusted = V.std_trusted() + ["schema translator and descriptor oracle as for C12; blob re-encoding is assumed semantically neutral (protobuf-go round trip; decoded contents are compared)"]
    W.regenerate(ck)
    proof_ok = V.coq_stage(ck, PROP, TARGETS)
    rng = V.Rng(seed)
    problems = []   # (kind, data, text)
    # (a) NewStaticBiMap vs model
    ok, log, exe = V.ocaml_build("bimap_driver", "ExtractBimap.v", "bimap_model.ml", "bimap_driver.ml")
    ck.obligation("extraction + driver build", ok, log[-1500:])
    bl = bimap_lines(rng, 300 if tier == "quick" else 20000)
    err, bi = L.run_impl("collect", ["zz_verif_bimap_test.go"], "TestVerifBimap", bl, "c13b")
    err2, bm = L.run_model(exe, [], bl) if ok else ("no driver", [])
    if err or err2:
        ck.obligation("bimap correspondence run", False, err or err2)
    else:
        bad = [i for i in range(len(bl)) if bi[i] != bm[i]]
        ck.obligation("collect.NewStaticBiMap = model (accept iff one-to-one; both directions) on %d pair lists" % len(bl), not bad,
                      "; ".join("%s -> %s (model %s)" % (bl[i], bi[i], bm[i]) for i in bad[:3]))
        # monitor: accepted iff keys and values are distinct
        for i, l in enumerate(bl):
            ps = [] if l.split()[1:] in ([], ["-"]) else [p.split(":") for p in l.split()[1].split(",")]
            one_to_one = len({p[0] for p in ps}) == len(ps) and len({p[1] for p in ps}) == len(ps)
            if (bi[i] != "B err") != one_to_one:
                problems.append(("bimap", {"kind": "bimap", "line": l, "impl": bi[i]}, "NewStaticBiMap %s -> %s" % (l, bi[i])))
        if bad and not problems:
            problems.append(("corr", {"kind": "unproved", "broken": ["correspondence BiMap.new_bimap <-> collect.NewStaticBiMap"], "line": bl[bad[0]], "impl": bi[bad[0]], "model": bm[bad[0]]}, None))
        # the configuration layer in front of it (StringTranslator.AsLocalToRemoteBiMap) must behave the same
        errc, bc = L.run_impl("config", ["zz_verif_strtrans_test.go"], "TestVerifStringTranslator", bl, "c13c")
        if errc:
            ck.obligation("configuration-layer bimap run", False, errc)
        else:
            badc = [i for i in range(len(bl)) if bc[i] != bm[i]]
            ck.obligation("config.StringTranslator.AsLocalToRemoteBiMap = model on the same %d mapping lists" % len(bl), not badc,
                          "; ".join("%s -> %s (model %s)" % (bl[i], bc[i], bm[i]) for i in badc[:3]))
            for i, l in enumerate(bl):
                ps = [] if l.split()[1:] in ([], ["-"]) else [p.split(":") for p in l.split()[1].split(",")]
                one_to_one = len({p[0] for p in ps}) == len(ps) and len({p[1] for p in ps}) == len(ps)
                if (bc[i] != "B err") != one_to_one:
                    problems.append(("bimap", {"kind": "strtrans", "line": l, "impl": bc[i]}, "a mapping list that is %sone-to-one was %s by the configuration layer: %s -> %s" % ("" if one_to_one else "not ", "rejected" if one_to_one else "accepted", l, bc[i])))
            if badc and not [p for p in problems if p[0] == "bimap"]:
                problems.append(("corr", {"kind": "unproved", "broken": ["correspondence BiMap.new_bimap <-> config.StringTranslator.AsLocalToRemoteBiMap"], "line": bl[badc[0]], "impl": bc[badc[0]], "model": bm[badc[0]]}, None))
    # (b) walkers: nothing but mapped names / keys changes; round trip
    cases = 6 if tier == "quick" else 40
    total = 0
    for mode, kinds in (("ns", ("NS", "NSRT")), ("sa", ("SA",))):
        err, diffs, stats = W.run(mode, seed, cases)
        if err:
            ck.obligation("differential walker run (%s)" % mode, False, err)
            continue
        mine = [d for d in diffs if d.split()[0] in kinds]
        total += stats.get("messages", 0)
        ck.cov.setdefault("walker_stats", {})[mode] = stats
        ck.obligation("real walker (%s) = descriptor-driven reference on whole messages (every other field identical; round trip restores the original) on %d messages" % (mode, stats.get("messages", 0)),
                      not mine, "%d differ; first %s" % (len(mine), mine[0][:300] if mine else ""))
        for d in mine[:1]:
            problems.append(("walker", {"kind": "walker", "mode": mode, "seed": seed, "cases": cases, "only": d.split()[1], "line": d}, d[:400]))
    # (c) direction and start-up rejection, end to end
    e_in = ["SETUP transport=tcp acl=none nsmap=loc:rem,loc2:rem2",
            "CALL side=remote method=%s ns=rem" % DESCRIBE_NS, "CALL side=local method=%s ns=loc" % DESCRIBE_NS,
            "CALL side=remote method=%s ns=loc" % DESCRIBE_NS, "CALL side=local method=%s ns=rem" % DESCRIBE_NS,
            "CALL side=remote method=%s ns=unmapped" % DESCRIBE_NS, "CALL side=remote method=%s ns=rem bypass=1" % DESCRIBE_NS,
            "SETUP transport=tcp acl=none nsmap=a:b,b:c", "CALL side=remote method=%s ns=c" % DESCRIBE_NS, "CALL side=remote method=%s ns=b" % DESCRIBE_NS,
            "CALL side=local method=%s ns=a" % DESCRIBE_NS,
            "SETUP transport=tcp acl=none nsmap=a:x,b:x", "SETUP transport=tcp acl=none nsmap=a:x,a:y",
            "SETUP transport=mux acl=none nsmap=loc:rem", "CALL side=remote method=%s ns=rem" % DESCRIBE_NS,
            # search-attribute keys in responses: the inbound server answers the remote side (local -> remote names), the outbound server the local side
            "SETUP transport=tcp acl=none nsmap=- samap=LocalSA:RemoteSA,ChainA:ChainB,ChainB:ChainC",
            "CALL side=remote method=%s ns=x sakeys=LocalSA+Other" % DESCRIBE_MS, "CALL side=local method=%s ns=x sakeys=RemoteSA+Other" % DESCRIBE_MS,
            "CALL side=remote method=%s ns=x sakeys=ChainA" % DESCRIBE_MS, "CALL side=local method=%s ns=x sakeys=ChainC" % DESCRIBE_MS]
    e_want = ["SETUP ok", "seen=loc resp=info:rem", "seen=rem resp=info:loc", "seen=loc resp=info:rem", "seen=rem resp=info:loc",
              "seen=unmapped resp=info:unmapped", "seen=rem resp=info:rem",
              "SETUP ok", "seen=b resp=info:c", "seen=a resp=info:b", "seen=b resp=info:a",
              "SETUP error", "SETUP error", "SETUP ok", "seen=loc resp=info:rem",
              "SETUP ok", "resp=sa:Other=value-of-Other,RemoteSA=value-of-LocalSA ", "resp=sa:LocalSA=value-of-RemoteSA,Other=value-of-Other ",
              "resp=sa:ChainB=value-of-ChainA ", "resp=sa:ChainB=value-of-ChainC "]
    err, e_out = L.run_impl("proxy", E2E, "TestVerifE2E", e_in, "c13e", timeout=900)
    if err:
        ck.obligation("end-to-end direction run", False, err)
    else:
        bad = [i for i in range(len(e_in)) if e_want[i] not in e_out[i]]
        ck.obligation("end-to-end: inbound requests remote->local and responses local->remote, outbound the opposite, bypass header honoured, non one-to-one mappings rejected at start-up (%d steps)" % len(e_in),
                      not bad, "; ".join("%s -> %s (want %s)" % (e_in[i], e_out[i], e_want[i]) for i in bad[:3]))
        for i in bad[:1]:
            j = i
            while not e_in[j].startswith("SETUP"):
                j -= 1
            problems.append(("e2e", {"kind": "e2e", "lines": [e_in[j], e_in[i]] if j != i else [e_in[i]], "impl": e_out[i], "want": e_want[i]}, "%s ; %s -> %s" % (e_in[j], e_in[i], e_out[i])))
    ck.cov.update({"evaluations": total + len(bl) + len(e_in), "distinct_nontrivial": sum(s.get("ns_matched", 0) + s.get("sa_matched", 0) for s in ck.cov.get("walker_stats", {}).values()),
                   "traces_validated_against_impl": total + len(bl) + len(e_in)})
    ck.samples = [{"bimap": bl[3], "impl": bi[3] if not err and len(bi) > 3 else None}, {"e2e": e_in[1], "impl": e_out[1] if e_out else None}]
    concrete = [p for p in problems if p[0] != "corr"]
    if concrete:
        kind, data, text = concrete[0]
        data["verdict"] = "translation changed something it must not, did not round-trip, pointed the wrong way, or a non one-to-one mapping was accepted"
        ck.violation(data, text)
    elif problems or not proof_ok:
        data = {"kind": "unproved", "broken": [], "search": "bimap sweep, %d walker messages and the end-to-end direction script: no failing input" % total}
        if not proof_ok:
            data["broken"].append("theorems of coq/properties/C13.v no longer check")
        for p in problems:
            data["broken"] += p[1].get("broken", [])
            data.update({k: v for k, v in p[1].items() if k not in ("broken", "kind")})
        ck.violation(data, "; ".join(data["broken"]), no_input=True)
    return ck.finish(rule="(a) random and hand-picked pair lists through collect.NewStaticBiMap; (b) the C12/C14 message population with whole-message comparison and inverse-mapping round trip "
                          "(names that are substrings/prefixes of mapped names, unmapped names, empty strings, blobs with and without matches, chains and swaps); (c) end-to-end calls from both sides "
                          "of a running ClusterConnection (TCP and mux); non-trivial = messages in which something was mapped")


def replay(data):
    if data.get("kind") == "walker":
        err, diffs, stats = W.run(data["mode"], data["seed"], data["cases"], only=data["only"])
        print(err or "\n".join(diffs) or "(no disagreement)")
        return 1 if diffs else 0
    if data.get("kind") == "e2e":
        err, out = L.run_impl("proxy", E2E, "TestVerifE2E", data["lines"], "c13r")
        print(data["lines"], "->", out, "want", data.get("want"))
        bad = bool(out) and data.get("want", "") not in out[-1]
        print("REPRODUCED" if bad else "not reproduced on the current tree")
        return 1 if bad else 0
    if data.get("kind") == "strtrans":
        err, out = L.run_impl("config", ["zz_verif_strtrans_test.go"], "TestVerifStringTranslator", [data["line"]], "c13r")
        print(err or out)
        ps = [] if data["line"].split()[1:] in ([], ["-"]) else [p.split(":") for p in data["line"].split()[1].split(",")]
        one_to_one = len({p[0] for p in ps}) == len(ps) and len({p[1] for p in ps}) == len(ps)
        return 1 if err or ((out[0] != "B err") != one_to_one) else 0
    if data.get("kind") == "bimap":
        err, out = L.run_impl("collect", ["zz_verif_bimap_test.go"], "TestVerifBimap", [data["line"]], "c13r")
        print(data["line"], "->", out)
        return 1 if out and out[0] == data.get("impl") else 0
    print("nothing to execute: " + "; ".join(data.get("broken", [])))
    return 1


MANIFEST = {
    "technique": "Coq theorems (bimap accepts exactly one-to-one lists, inverse lookups, round trip with its necessary side condition, direction rules, walker touches only tagged positions) + three correspondences",
    "text": "Theorems C13_*: NewStaticBiMap's model accepts a pair list iff it is one-to-one and its two directions are mutually inverse; renaming leaves everything outside the mapping's domain "
            "untouched; a round trip through the inverse restores every mapped name and every unmapped name that is not a mapping target (side condition shown necessary); the inbound server maps requests "
            "remote-to-local and responses local-to-remote, the outbound server the opposite; on the regenerated schema the walker changes only descriptor-tagged positions. Tied to the code by the real "
            "NewStaticBiMap vs the extracted model, by whole-message comparison of the real walkers with the descriptor-driven reference (plus round trip), and by end-to-end calls through a running "
            "ClusterConnection from both sides including chains, the bypass header and rejected configurations.",
    "note": "The direction rules are also observed through a real cluster connection for search-attribute keys in responses (inbound and outbound server, chain mappings). Blob re-encoding is compared on decoded contents (semantically identical, not byte-identical).",
}
