"""C03 - acknowledgements to a source are monotone, bounded and eventually complete."""
from .. import routing as R
from .. import vfcore as V

PROP = "C03"
TARGETS = ["theories/Routing/Witness.vo", "theories/Routing/Basic.vo", "theories/Routing/Mono.vo", "theories/Routing/Complete.vo"]


def nontrivial(h, ev):
    return any(l.startswith("X ") for l in h) or int(h[0].split()[2]) >= 2


def check(tier, seed):
    ck = V.Check(PROP, tier, seed)
    ck.trusted = V.std_trusted() + R.ROUTING_TRUSTED
    ck.assumptions = ["'eventually' = within the completion rounds of the canonical fair schedule (every target connected and acknowledging what it was sent, the source repeating its periodic watermark)"]
    proof_ok = V.coq_stage(ck, PROP, TARGETS)

    def vary(i, r):
        return {"big": i % 3 == 0, "liveness": True, "stalls": True}
    R.engine(ck, PROP, tier, seed, {"faults": False, "vary": vary}, ("C03",), 160, 8000, proof_ok, nontrivial, "", project=("K",),
             extra_histories=lambda r, exe, tier: [R.gen_queue_full(r.fork("q%d" % i), exe) for i in range(3 if tier == "quick" else 40)]
             + [R.gen_restart_completion(r.fork("rs%d" % i), exe) for i in range(6 if tier == "quick" else 60)]
             + [R.gen_late_target(r.fork("lt%d" % i), exe) for i in range(4 if tier == "quick" else 40)])
    # sustained load (monitor only; the model has no notion of a slow reader): a finished source repeats its final watermark
    # while another source keeps the shared, slowly drained queue of the same target between half full and full; the
    # target acknowledges everything it is sent.  The finished source must be told its final watermark while the load lasts.
    sustained = []
    for k, (delay, refill) in enumerate(((100, 60), (100, 55), (100, 66))):
        h = ["I 2 1", "C 0", "XD 0 %d" % delay, "AA 0", "SB 1 80 1000 0"]
        nid = 1080
        for _ in range(7):
            h += ["SB 1 %d %d 0" % (refill, nid), "S 0 50 0"]
            nid += refill
        h.append("E")
        sustained.append(h)
    errs, simpl = R.run_impl(sustained, "c03s")
    if errs:
        ck.obligation("sustained-load run", False, errs[:1500])
    else:
        starved = []
        for h, ev in zip(sustained, simpl):
            got = any(l == "K 0 50" for e, lines in ev[:-1] for l in lines)
            if not got:
                starved.append(h)
        ck.obligation("under sustained load from another source (target queue kept between half full and full, %d load profiles) a finished source still receives its final watermark" % len(sustained),
                      not starved, "%d profiles starve" % len(starved))
        if starved and not ck.violations:
            ck.violation({"kind": "sustained", "history": starved[0], "verdict": "source 0 never received the acknowledgement of its final high watermark 50 while source 1 kept the target's queue at least half full"},
                         "C03: source 0 finished at watermark 50 and kept repeating it for 20 s, the target acknowledged everything it was sent, yet source 0 was never told 50")
    # many sources, one late target (monitor only: the order in which the pending watermarks are replayed is a map order): more
    # source shards than the target's hand-off queue holds have announced their watermark before the target connects; the
    # target acknowledges everything it is sent; every source must be told its watermark
    many = [["I %d 1" % n, "SA 10", "C 0", "AA 0", "SA 10", "E", "SA 10", "E", "E"] for n in ((120,) if tier == "quick" else (101, 120, 160))]
    merr, mimpl = R.run_impl(many, "c03m", timeout=600)
    if merr:
        ck.obligation("many-sources run", False, merr[:1500])
        if not ck.violations:
            ck.violation({"kind": "harness", "log": merr, "broken": "C03 many-sources harness"}, "harness failed: " + merr[:300], no_input=True)
    else:
        mbad = []
        for h, ev in zip(many, mimpl):
            n = int(h[0].split()[1])
            told = set(int(l.split()[1]) for e, lines in ev for l in lines if l.startswith("K ") and l.split()[2] == "10")
            if len(told) != n:
                mbad.append((h, "%d of %d sources were never told their final watermark 10" % (n - len(told), n)))
        ck.obligation("more source shards than the target's hand-off queue holds (120) announce their watermark before the only target connects; the target acknowledges everything: "
                      "every source is told its watermark", not mbad, "; ".join(x[1] for x in mbad))
        if mbad and not ck.violations:
            ck.violation({"kind": "many", "history": mbad[0][0], "verdict": mbad[0][1]}, "C03: " + mbad[0][1])
    return ck.finish(rule="histories with slow (stalled, queue-filling) targets, idle targets and late targets, each ending with completion rounds; monitor: acks per source never decrease, never exceed "
                          "the last exclusive high watermark received, and the last ack equals the final high watermark; non-trivial = a stalled target or >= 2 targets")


def replay(data):
    if data.get("kind") == "many":
        err, impl = R.run_impl([data["history"]], "c03mr", timeout=600)
        if err:
            print(err[-800:])
            return 1
        n = int(data["history"][0].split()[1])
        told = set(int(l.split()[1]) for e, lines in impl[0] for l in lines if l.startswith("K ") and l.split()[2] == "10")
        print("%d of %d sources told their watermark" % (len(told), n))
        return 0 if len(told) == n else 1
    if data.get("kind") == "sustained":
        err, impl = R.run_impl([data["history"]], "c03r")
        if err:
            print(err)
            return 1
        got = any(l == "K 0 50" for e, lines in impl[0][:-1] for l in lines)
        print("source 0 told its final watermark while the load lasted:", got)
        return 0 if got else 1
    return R.replay(data)

MANIFEST = {
    "technique": "Coq proof that every acknowledgement of every fault-free action sequence is monotone and bounded (corollary of the routing invariant) + correspondence and "
                 "monotone/bounded/completion monitor in virtual time",
    "text": "C03_acks_monotone_bounded_all_runs proves for every fault-free action sequence (every interleaving, any number of sources and targets) that each acknowledgement sent to a source is >= "
            "the previous one and <= the source's last high watermark (a consequence of the routing invariant). C03_ack_monotone_bounded (coq/properties/C03.v) proves that every value the receiver sends upstream is >= the previous one (under the receiver invariant) and <= the last source high watermark; "
            "the model is tied to the code as for C01. Eventual completeness is checked as progress under the canonical fair schedule: histories end with completion rounds in virtual time and the "
            "source must have received exactly its final high watermark, on the real code and on the model.",
    "note": "Liveness is decided under the canonical schedule and, on the implementation only, under sustained load from a second source sharing a slowly drained target queue (not under arbitrary "
            "fairness). Trusted as C01. Histories include a source stream re-opened while its predecessor is still up (event RO) followed by completion rounds.",
}
