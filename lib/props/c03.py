"""C03 - acknowledgements to a source are monotone, bounded and eventually complete."""
from .. import routing as R
from .. import vfcore as V

PROP = "C03"
TARGETS = ["theories/Routing/Witness.vo", "theories/Routing/Basic.vo", "theories/Routing/Mono.vo"]


def nontrivial(h, ev):
    return any(l.startswith("X ") for l in h) or int(h[0].split()[2]) >= 2


def check(tier, seed):
    ck = V.Check(PROP, tier, seed)
    ck.trusted = V.std_trusted() + R.ROUTING_TRUSTED
    ck.assumptions = ["'eventually' = within the completion rounds of the canonical fair schedule (every target connected and acknowledging what it was sent, the source repeating its periodic watermark)"]
    proof_ok = V.coq_stage(ck, PROP, TARGETS)

    def vary(i, r):
        return {"big": i % 3 == 0, "liveness": True, "stalls": True}
    R.engine(ck, PROP, tier, seed, {"faults": False, "vary": vary}, ("C03",), 160, 8000, proof_ok, nontrivial, "", project=("K",),
             extra_histories=lambda r, exe, tier: [R.gen_queue_full(r.fork("q%d" % i), exe) for i in range(3 if tier == "quick" else 40)])
    return ck.finish(rule="histories with slow (stalled, queue-filling) targets, idle targets and late targets, each ending with completion rounds; monitor: acks per source never decrease, never exceed "
                          "the last exclusive high watermark received, and the last ack equals the final high watermark; non-trivial = a stalled target or >= 2 targets")


replay = R.replay

MANIFEST = {
    "technique": "Coq proof that every acknowledgement of every fault-free action sequence is monotone and bounded (corollary of the routing invariant) + correspondence and "
                 "monotone/bounded/completion monitor in virtual time",
    "text": "C03_acks_monotone_bounded_all_runs proves for every fault-free action sequence (every interleaving, any number of sources and targets) that each acknowledgement sent to a source is >= "
            "the previous one and <= the source's last high watermark (a consequence of the routing invariant). C03_ack_monotone_bounded (coq/properties/C03.v) proves that every value the receiver sends upstream is >= the previous one (under the receiver invariant) and <= the last source high watermark; "
            "the model is tied to the code as for C01. Eventual completeness is checked as progress under the canonical fair schedule: histories end with completion rounds in virtual time and the "
            "source must have received exactly its final high watermark, on the real code and on the model.",
    "note": "Liveness is decided under the canonical schedule only (not arbitrary fairness). Trusted as C01.",
}
