"""C15 - inbound admin calls outside the allow-list never reach the local cluster.
Proof: coq/properties/C15.v.  Correspondence: exhaustive end-to-end matrix through a running ClusterConnection."""
from .. import linediff as L
import os

from .. import vfcore as V

PROP = "C15"
TARGETS = ["theories/Policy/Proofs.vo"]
GO_FILES = ["zz_verif_fakes_test.go", "zz_verif_e2e_test.go"]
ADMIN = "/temporal.server.api.adminservice.v1.AdminService/"
WF = "/temporal.api.workflowservice.v1.WorkflowService/"


def methods():
    err, out = L.run_impl("proxy", GO_FILES, "TestVerifE2E", ["METHODS"], "c15m")
    if err or not out:
        return err or "no METHODS output", []
    return None, [m.split(":") for m in out[0].split()[1:]]


def svc_of(full):
    if full.startswith(ADMIN):
        return "admin"
    if full.startswith(WF):
        return "workflow"
    return "other"


def build(tier, rng, ms):
    admin = [m[0][len(ADMIN):] for m in ms if m[0].startswith(ADMIN)]
    cfgs = [("tcp", None), ("tcp", ([], [])), ("tcp", (["StreamWorkflowReplicationMessages"], [])), ("tcp", (["DescribeCluster", "AddOrUpdateRemoteCluster"], [])),
            ("mux", None), ("mux", ([], [])), ("mux", ([rng.choice(admin)], []))]
    singles = admin if tier == "thorough" else [rng.choice(admin) for _ in range(4)]
    # always: singleton lists of every method whose name is a proper prefix, suffix or substring of another admin method's
    # name (the match has to be exact), from the descriptors
    related = sorted(a for a in admin if any(a != b and a in b for b in admin))
    for s in singles + [a for a in related if a not in singles]:
        cfgs.append(("tcp", ([s], [])))
    for _ in range(2 if tier == "quick" else 12):
        cfgs.append(("tcp", ([rng.choice(admin), rng.choice(admin)], [])))
    if tier == "thorough":
        for s in admin[::6]:
            cfgs.append(("mux", ([s], [])))
    impl, model, meta = [], [], []
    for tr, pol in cfgs:
        if pol is None:
            impl.append("SETUP transport=%s acl=none" % tr)
            model.append("P none")
        else:
            impl.append("SETUP transport=%s acl=present methods=%s namespaces=%s" % (tr, ",".join(pol[0]) or "-", ",".join(pol[1]) or "-"))
            model.append("P present %s %s" % (",".join(pol[0]) or "-", ",".join(pol[1]) or "-"))
        meta.append(None)
        k = 0
        for m in ms:
            full, stream = m[0], m[3]
            k += 1
            # caller-supplied metadata: none / the translation-bypass header / the proxy's own intra-proxy marker and
            # tracing headers (names read from the source) / all of them; streaming methods get every variant
            for hv in (range(4) if stream == "1" else (k % 4,)):
                impl.append("CALL side=remote method=%s bypass=%d hdrs=%s" % (full, 1 if hv in (1, 3) else 0, special_headers() if hv >= 2 else "-"))
                model.append("Q %s %s %s -" % (svc_of(full), full.rsplit("/", 1)[1], stream))
                meta.append((tr, pol, full, stream, "remote"))
        # the local-facing server of the same connection carries no policy
        for m in ms[::9]:
            impl.append("CALL side=local method=%s" % m[0])
            model.append("Q other %s %s -" % (m[0].rsplit("/", 1)[1], m[3]))
            meta.append((tr, pol, m[0], m[3], "local"))
    return impl, model, meta, len(cfgs)


_SPECIAL = None


def special_headers():
    """metadata keys the proxy itself gives a meaning to, read from the source (common/*.go string constants)"""
    global _SPECIAL
    if _SPECIAL is None:
        import glob
        import re
        names = []
        for fn in sorted(glob.glob(os.path.join(V.REPO, "common", "*.go"))):
            if fn.endswith("_test.go"):
                continue
            for m in re.finditer(r'=\s*"(x-s2s-[a-z0-9-]+)"', open(fn).read()):
                if m.group(1) not in names:
                    names.append(m.group(1))
        _SPECIAL = ";".join("%s:1" % n for n in names) or "-"
    return _SPECIAL


def run_aclsizes():
    """allow-lists of every size through the real interceptor (go/overlay/interceptor/zz_verif_aclsizes_test.go)"""
    outp = os.path.join(V.WORK, "aclsizes.out")
    if os.path.exists(outp):
        os.remove(outp)
    rc, out = V.go_test("interceptor", ["zz_verif_aclsizes_test.go"], "^TestVerifAclSizes$", env={"VERIF_OUT": outp}, timeout=600)
    if rc != 0 or not os.path.exists(outp):
        return "allow-list size harness failed:\n" + out[-1500:], [], 0
    lines = [l for l in open(outp).read().split("\n") if l]
    st = [l for l in lines if l.startswith("STATS")]
    ncases = int(st[0].split()[1].split("=")[1]) if st else 0
    return None, [l for l in lines if l.startswith("ACLSIZE")], ncases


def aclsize_obligation(ck, kind, what):
    err, lines, ncases = run_aclsizes()
    mine = [l for l in lines if ("kind=" + kind) in l]
    ck.obligation("%s allow-lists of every size (0..N entries, two selections each) through the real interceptor: a name is let through exactly when the list is empty or contains it "
                  "(%d cases over both kinds)" % (what, ncases), not err and not mine, err or "; ".join(mine[:3]))
    if err and not ck.violations:
        ck.violation({"kind": "harness", "log": err, "broken": "allow-list size harness"}, err[:300], no_input=True)
    elif mine and not ck.violations:
        ck.violation({"kind": "aclsize", "acl_kind": kind, "lines": mine[:20], "verdict": "an allow-list of this size lets a name through that it does not contain (or refuses one it contains)"}, mine[0])


def check(tier, seed):
    ck = V.Check(PROP, tier, seed)
    ck.trusted = V.std_trusted() + [
        "modelled not verified: gRPC interceptor chaining (an interceptor that returns an error stops the chain), prefix tests on full method names are abstracted to the service enumeration "
        "(the matrix uses the real method strings of both services)",
    ]
    proof_ok = V.coq_stage(ck, PROP, TARGETS)
    ok, log, exe = V.ocaml_build("policy_driver", "ExtractPolicy.v", "policy_model.ml", "policy_driver.ml")
    ck.obligation("extraction + driver build", ok, log[-2000:])
    if not ok:
        ck.violation({"kind": "build", "log": log[-3000:], "broken": "extraction of Policy/Model.v"}, "model driver does not build", no_input=True)
        return ck.finish()
    err, ms = methods()
    if err:
        ck.obligation("method list from descriptors", False, err)
        ck.violation({"kind": "harness", "log": err, "broken": "C15 e2e harness"}, "harness failed: " + err[:300], no_input=True)
        return ck.finish()
    rng = V.Rng(seed)
    impl_in, model_in, meta, ncfg = build(tier, rng, ms)
    err, impl = L.run_impl("proxy", GO_FILES, "TestVerifE2E", impl_in, "c15", timeout=2400)
    if err:
        ck.obligation("e2e matrix run", False, err)
        ck.violation({"kind": "harness", "log": err, "broken": "C15 e2e harness"}, "harness failed: " + err[:300], no_input=True)
        return ck.finish()
    err, model = L.run_model(exe, [], model_in)
    if err:
        ck.violation({"kind": "harness", "log": err, "broken": "C15 model driver"}, err[:300], no_input=True)
        return ck.finish()
    aclsize_obligation(ck, "admin", "admin-method")
    diffs, mon, denied = [], [], 0
    for i, (l, o, m, mt) in enumerate(zip(impl_in, impl, model, meta)):
        if mt is None:
            if not o.startswith("SETUP ok"):
                diffs.append(i)
            continue
        tr, pol, full, stream, side = mt
        want = "code=0 reached=1" if m == "Q 1" else "code=7 reached=0"
        if tr == "mux" and stream == "1" and m == "Q 0":
            # behind the peer proxy a refused stream surfaces as a clean end of stream (its forwarder does not
            # propagate the upstream error); the refusal itself is observed as 'the local cluster saw nothing'
            want = "reached=0"
        if want not in o or "stray=0" not in o:
            diffs.append(i)
        name = full.rsplit("/", 1)[1]
        reached = "reached=1" in o
        if side == "remote" and pol is not None:
            if full.startswith(ADMIN) and pol[0] and name not in pol[0]:
                denied += 1
                if reached or ("code=7" not in o and not (tr == "mux" and stream == "1")):
                    mon.append(i)
            elif full.startswith(WF) and name in ("RegisterNamespace", "DeprecateNamespace"):
                denied += 1
                if reached or "code=7" not in o:
                    mon.append(i)
            elif not reached:
                mon.append(i)      # allowed methods are forwarded
        elif not reached:
            mon.append(i)
    ck.cov.update({"evaluations": len(impl_in), "distinct_nontrivial": denied, "traces_validated_against_impl": len(impl_in),
                   "input_distribution": {"configurations": ncfg, "methods": len(ms), "calls": len(impl_in) - ncfg}})
    ck.samples = [{"setup": impl_in[0], "call": impl_in[5], "impl": impl[5], "model": model[5]}]
    ck.obligation("end-to-end decision (code, reached the local cluster) = model for every call of the matrix", not diffs, "%d differ" % len(diffs))
    ck.obligation("monitor: methods outside the list and namespace registration/deprecation are refused with permission-denied and never seen by the cluster; allowed methods forwarded", not mon, "%d calls" % len(mon))
    ck.log("%d configurations, %d calls: %d differ from model, %d monitor hits" % (ncfg, len(impl_in) - ncfg, len(diffs), len(mon)))

    def setup_of(i):
        j = i
        while meta[j] is not None:
            j -= 1
        return impl_in[j]
    if mon:
        i = mon[0]
        ck.violation({"kind": "calls", "lines": [setup_of(i), impl_in[i]], "impl": impl[i], "model": model[i],
                      "verdict": "the access policy was not enforced as the property states"}, "%s ; %s -> %s" % (setup_of(i), impl_in[i], impl[i]))
    elif diffs or not proof_ok:
        data = {"kind": "unproved", "broken": [], "search": "full method matrix over %d configurations: no call contradicts the property" % ncfg}
        if not proof_ok:
            data["broken"].append("theorems of coq/properties/C15.v no longer check")
        if diffs:
            i = diffs[0]
            data["broken"].append("correspondence Policy.Model.forwarded <-> assembled inbound/outbound servers")
            data.update({"lines": [setup_of(i), impl_in[i]] if meta[i] else [impl_in[i]], "impl": impl[i], "model": model[i]})
        ck.violation(data, "; ".join(data["broken"]), no_input=True)
    return ck.finish(rule="every method of AdminService and WorkflowService (from the service descriptors) x configurations {no policy, empty policy, singleton and pair allow-lists, streaming method allowed} x "
                          "{TCP, mux} with and without the translation-bypass header, called through a running ClusterConnection against a fake local cluster that records calls; plus calls on the "
                          "local-facing server; non-trivial = calls the policy must refuse")


def replay_aclsize(data):
    err, lines, _ = run_aclsizes()
    mine = [l for l in lines if ("kind=" + data.get("acl_kind", "")) in l]
    print(err or "\n".join(mine[:20]) or "(no disagreement on the current tree)")
    return 1 if err or mine else 0


def replay(data):
    if data.get("kind") == "aclsize":
        return replay_aclsize(data)
    if "lines" not in data:
        print("nothing to execute: " + "; ".join(data.get("broken", [])))
        return 1
    err, out = L.run_impl("proxy", GO_FILES, "TestVerifE2E", data["lines"], "c15r")
    print(data["lines"], "->", out, "(recorded %s, model %s)" % (data.get("impl"), data.get("model")))
    bad = bool(out) and out[-1] == data.get("impl")
    print("REPRODUCED" if bad else "not reproduced on the current tree")
    return 1 if bad else 0


MANIFEST = {
    "technique": "Coq theorems over the access-control decision function + exhaustive end-to-end method matrix through a running ClusterConnection (TCP and mux)",
    "text": "Theorems C15_* prove for all method names, allow-lists and request contents that under a policy an AdminService method outside a non-empty allow-list is never handed to the handler "
            "(unary and streaming), that RegisterNamespace/DeprecateNamespace are refused under any policy, and that allowed methods are forwarded. The decision function and the assembly "
            "(interceptors installed iff a policy object is configured; only on the remote-facing server; TCP and mux) are compared on every run with the real proxy: all 154 methods of both "
            "services are called through a running ClusterConnection for a set of allow-lists, with and without the bypass header, and the fake local cluster records what arrives.",
    "note": "gRPC interceptor chaining is trusted. The prefix tests are abstracted to a service enumeration; the matrix exercises the real strings.",
}
