"""C02 - each task once, to the owner, in a well-formed stream."""
from .. import routing as R
from .. import vfcore as V

PROP = "C02"
TARGETS = ["theories/Routing/Witness.vo", "theories/Routing/Basic.vo", "theories/Routing/Delivery.vo", "theories/Routing/Inv.vo", "theories/Routing/Place.vo", "theories/Routing/Wire.vo", "theories/Routing/Watermark.vo"]


def nontrivial(h, ev):
    f = h[0].split()
    multi = any(l.startswith("S ") and int(l.split()[3]) >= 2 for l in h)
    return multi and (int(f[1]) >= 2 or int(f[2]) >= 2)


def check(tier, seed):
    ck = V.Check(PROP, tier, seed)
    ck.trusted = V.std_trusted() + R.ROUTING_TRUSTED
    proof_ok = V.coq_stage(ck, PROP, TARGETS)

    def vary(i, r):
        return {"big": i % 3 == 0, "liveness": i % 2 == 0, "unroutable": i % 5 == 0}
    R.engine(ck, PROP, tier, seed, {"faults": False, "vary": vary}, ("C02",), 160, 8000, proof_ok, nontrivial, "", allow_tags=("F10",), project=("T",))
    # overload (monitor only; the model has no notion of a slow reader): one or two sources push several hundred
    # single-task batches, back to back, at a target that drains slowly, so that the owner's hand-off queue (capacity
    # 100) stays full for a long time; every task must still arrive exactly once, in source order, in a well-formed stream
    overload = []
    for delay, n1, n2 in ((5, 400, 0), (20, 260, 150), (2, 330, 0)) if tier == "quick" else ((5, 400, 0), (20, 260, 150), (2, 330, 0), (1, 900, 300), (50, 150, 150), (10, 500, 500)):
        h = ["I 2 2", "C 0", "C 1", "XD 0 %d" % delay, "SB 0 %d 1000 0" % n1]
        if n2:
            h += ["SB 1 %d 5000 0" % n2, "SB 0 %d %d 0" % (n2, 1000 + n1)]
        # every event is followed by 3 s of (virtual) settling: enough idle events for the slow target to drain everything
        total_ms = delay * (n1 + 2 * n2)
        h += ["S 0 9000 2 8000 1 q1 8001 0 q2"] + ["E"] * (2 + total_ms // 3000 + 1)
        overload.append(h)
    errs, oimpl = R.run_impl(overload, "c02o")
    if errs:
        ck.obligation("overload run", False, errs[:1500])
    else:
        bad = []
        for h, ev in zip(overload, oimpl):
            v, info = R.monitor(h, ev)
            v = [x for x in v if x[0] == "C02"]
            missing = [pay for pays in info["received"].values() for pay in pays if pay not in info["fwd"]]
            if v or missing:
                bad.append((h, v[:3], missing[:5]))
        ck.obligation("with the owner's hand-off queue kept full by bursts of several hundred batches at a slowly draining target (%d load profiles) every task still arrives once, in source order, "
                      "in a well-formed stream" % len(overload), not bad, "%d profiles fail" % len(bad))
        if bad and not ck.violations:
            h, v, missing = bad[0]
            ck.violation({"kind": "overload", "history": h, "verdict": [str(x) for x in v], "missing": missing},
                         "C02 under overload: " + ("; ".join(x[2] for x in v) if v else "tasks never delivered: %s" % missing))
    # two priority lanes on one source stream (monitor only: the model's sources have one id sequence): a low-priority batch
    # whose ids are below the watermark the high-priority lane has already announced must still be routed, once, to its owners
    lanes = [["I 1 2", "C 0", "C 1", "S 0 50 2 40 0 h1 41 1 h2", "SL 0 30 2 20 0 l1 21 1 l2", "S 0 60 1 55 1 h3", "SL 0 33 1 31 0 l3", "E"],
             ["I 2 2", "C 0", "C 1", "S 1 500 1 400 1 h1", "SL 1 90 3 70 0 l1 71 1 l2 72 0 l3", "E"]]
    lerr, limpl = R.run_impl(lanes, "c02l")
    if lerr:
        ck.obligation("priority lanes run", False, lerr[:1500])
    else:
        lbad = []
        for h, ev in zip(lanes, limpl):
            v, info = R.monitor(h, ev)
            missing = [pay for pays in info["received"].values() for pay in pays if pay not in info["fwd"]]
            wrong = [x for x in v if x[0] == "C02" and ("owned by" in x[2] or "sent twice" in x[2])]
            if missing or wrong:
                lbad.append((h, missing, wrong))
        ck.obligation("a source multiplexing a high- and a low-priority lane on one stream (low-lane ids below the high lane's watermark): every task is routed once, to its owner", not lbad,
                      "; ".join("never delivered %s %s" % (m, [x[2] for x in w]) for _, m, w in lbad))
        if lbad and not ck.violations:
            h, missing, wrong = lbad[0]
            ck.violation({"kind": "lanes", "history": h, "missing": missing, "verdict": [str(x) for x in wrong]}, "C02 with two priority lanes: tasks never delivered %s" % missing)
    return ck.finish(rule="as C01 plus batches containing unroutable tasks and completion rounds; monitor: every forwarded task was received, is on its owner's stream, at most once, payload "
                          "unchanged, per-(source,target) order kept, proxy ids strictly increasing, task-bearing watermark above last id and above every earlier watermark, everything delivered "
                          "after the completion rounds; non-trivial = multi-task batch with >= 2 sources or targets")


def replay(data):
    if data.get("kind") == "lanes":
        err, impl = R.run_impl([data["history"]], "c02lr")
        if err:
            print(err)
            return 1
        v, info = R.monitor(data["history"], impl[0])
        missing = [pay for pays in info["received"].values() for pay in pays if pay not in info["fwd"]]
        print("undelivered:", missing)
        return 1 if missing else 0
    if data.get("kind") == "overload":
        err, impl = R.run_impl([data["history"]], "c02r")
        if err:
            print(err)
            return 1
        v, info = R.monitor(data["history"], impl[0])
        v = [x for x in v if x[0] == "C02"]
        missing = [pay for pays in info["received"].values() for pay in pays if pay not in info["fwd"]]
        for x in v[:10]:
            print(x)
        print("undelivered:", missing[:10])
        return 1 if v or missing else 0
    return R.replay(data)

MANIFEST = {
    "technique": "Coq invariant proofs over all action sequences of the routing transition system (exact placement of every received task, source order, fresh increasing ids) + "
                 "differential correspondence and delivery monitor (exactly-once, owner, order, well-formed watermarks) on the real streamRouting",
    "text": "Same model and correspondence as C01. Proved for every fault-free action sequence (corollaries of the invariant of Routing/Inv.v): every task a receiver has read is in the sequence "
            "handed to its owner's sender or in the pending group for that owner - never elsewhere, never dropped (C02_received_tasks_reach_their_owner); exactly once and in order as a list equality between what each target's "
            "sender has been handed plus what is pending for it and the received tasks it owns (C02_exact_placement, theories/Routing/Place.v) ; the proxy ids written on each target stream are exactly those of its table's task entries, strictly increasing "
            "(C02_wire_ids, theories/Routing/Wire.v), and every task-bearing message written on a target stream carries a watermark above each of its task ids and above the watermark of every "
            "earlier message on that stream (C02_wire_watermarks, theories/Routing/Watermark.v) - and in source order, no watermark overtaking a "
            "task it covers (C02_owner_stream_in_source_order); grouping is an order-preserving partition; proxy ids are fresh and strictly increasing. The delivery clauses of the property are an executable monitor applied to every implementation trace (and implied for the model by the "
            "correspondence): every sent task was received, goes to the owner computed by the real hash, exactly once, payload identity preserved, source order per target, strictly increasing proxy "
            "ids, watermarks a Temporal receiver accepts (transcription of ExecutableTaskTracker.TrackTasks), and nothing undelivered after completion rounds. Known finding F10 (tasks without routing "
            "information are dropped and later acknowledged) is reported as KNOWN-FINDING.",
    "note": "Trusted as C01. Proved: placement, order, and the ids written on each target's stream (C02_wire_ids: exactly the table's task entries, strictly increasing). and the watermark well-formedness a Temporal receiver checks (C02_wire_watermarks). Decided by the monitor + "
            "correspondence on the explored histories only: payload identity on the wire and eventual delivery.",
}
