"""C02 - each task once, to the owner, in a well-formed stream."""
from .. import routing as R
from .. import vfcore as V

PROP = "C02"
TARGETS = ["theories/Routing/Witness.vo", "theories/Routing/Basic.vo", "theories/Routing/Delivery.vo", "theories/Routing/Inv.vo", "theories/Routing/Place.vo", "theories/Routing/Wire.vo"]


def nontrivial(h, ev):
    f = h[0].split()
    multi = any(l.startswith("S ") and int(l.split()[3]) >= 2 for l in h)
    return multi and (int(f[1]) >= 2 or int(f[2]) >= 2)


def check(tier, seed):
    ck = V.Check(PROP, tier, seed)
    ck.trusted = V.std_trusted() + R.ROUTING_TRUSTED
    proof_ok = V.coq_stage(ck, PROP, TARGETS)

    def vary(i, r):
        return {"big": i % 3 == 0, "liveness": i % 2 == 0, "unroutable": i % 5 == 0}
    R.engine(ck, PROP, tier, seed, {"faults": False, "vary": vary}, ("C02",), 160, 8000, proof_ok, nontrivial, "", allow_tags=("F10",), project=("T",))
    return ck.finish(rule="as C01 plus batches containing unroutable tasks and completion rounds; monitor: every forwarded task was received, is on its owner's stream, at most once, payload "
                          "unchanged, per-(source,target) order kept, proxy ids strictly increasing, task-bearing watermark above last id and above every earlier watermark, everything delivered "
                          "after the completion rounds; non-trivial = multi-task batch with >= 2 sources or targets")


replay = R.replay

MANIFEST = {
    "technique": "Coq invariant proofs over all action sequences of the routing transition system (exact placement of every received task, source order, fresh increasing ids) + "
                 "differential correspondence and delivery monitor (exactly-once, owner, order, well-formed watermarks) on the real streamRouting",
    "text": "Same model and correspondence as C01. Proved for every fault-free action sequence (corollaries of the invariant of Routing/Inv.v): every task a receiver has read is in the sequence "
            "handed to its owner's sender or in the pending group for that owner - never elsewhere, never dropped (C02_received_tasks_reach_their_owner); exactly once and in order as a list equality between what each target's "
            "sender has been handed plus what is pending for it and the received tasks it owns (C02_exact_placement, theories/Routing/Place.v) ; the proxy ids written on each target stream are exactly those of its table's task entries, strictly increasing "
            "(C02_wire_ids, theories/Routing/Wire.v) - and in source order, no watermark overtaking a "
            "task it covers (C02_owner_stream_in_source_order); grouping is an order-preserving partition; proxy ids are fresh and strictly increasing. The delivery clauses of the property are an executable monitor applied to every implementation trace (and implied for the model by the "
            "correspondence): every sent task was received, goes to the owner computed by the real hash, exactly once, payload identity preserved, source order per target, strictly increasing proxy "
            "ids, watermarks a Temporal receiver accepts (transcription of ExecutableTaskTracker.TrackTasks), and nothing undelivered after completion rounds. Known finding F10 (tasks without routing "
            "information are dropped and later acknowledged) is reported as KNOWN-FINDING.",
    "note": "Trusted as C01. Proved: placement, order, and the ids written on each target's stream (C02_wire_ids: exactly the table's task entries, strictly increasing). Decided by the monitor + "
            "correspondence on the explored histories only: payload identity on the wire, the watermark well-formedness a Temporal receiver checks, and eventual delivery.",
}
