"""C04 - stream failures never turn unconfirmed tasks into acknowledged ones (known findings F2a, F2b)."""
from .. import routing as R
from .. import vfcore as V

PROP = "C04"
TARGETS = ["theories/Routing/Witness.vo", "theories/Routing/Basic.vo"]

WITNESSES = [
    # the Coq witnesses of coq/properties/C04.v, replayed on the implementation
    ["I 1 2", "C 0", "C 1", "S 0 6 1 5 1 w5", "S 0 7 1 6 0 w6", "B 1", "C 1", "S 0 7 0", "A 1 1", "A 0 2", "E"],
    ["I 1 2", "C 0", "C 1", "S 0 36 1 35 1 w35", "S 0 46 1 45 0 w45", "R 0", "A 0 1", "E"],
]


def nontrivial(h, ev):
    return R.has_fault(h)


def long_ring_then_break(rng, exe):
    h, ok = R.gen_long_ring(rng, exe)
    return h + ["B 1", "C 1", "A 0 1"], ok


def check(tier, seed):
    ck = V.Check(PROP, tier, seed)
    ck.trusted = V.std_trusted() + R.ROUTING_TRUSTED
    proof_ok = V.coq_stage(ck, PROP, TARGETS)
    # the refutation witnesses must reproduce on the real code (else the finding entries are stale)
    err, impl = R.run_impl(WITNESSES, "c04w")
    if err:
        ck.obligation("witness replay", False, err)
    else:
        tags = []
        for h, ev in zip(WITNESSES, impl):
            v, _ = R.monitor(h, ev)
            tags.append(sorted({R.vtag(x) for x in v if x[0] == "C01"}))
        ck.cov["witness_replay_on_implementation"] = tags
        ck.obligation("Coq witnesses C04_refuted_* reproduce on the implementation (F2a, F2b)", tags == [["F2a"], ["F2b"]], str(tags))

    # a hand-off that arrives while the target's sender is being torn down (its queue is closed but still registered, or the
    # shutdown signal has fired) must be reported as NOT delivered, so that the receiver keeps the task and retries
    from . import c09
    # ... and acknowledgements whose way to the owning instance is the stream of ANOTHER shard pair (peer 'sibling'): an
    # acknowledgement carried by the wrong pair's stream would be attributed to the wrong target
    cases = [c for c in c09.dv_cases() if (c.split()[1] == "msg" and c.split()[2] in ("closed", "closedshutdown", "shutdown"))
             or (c.split()[1] == "ack" and c.split()[7] in ("sibling", "nostream"))]
    errd, dv = c09.run_dv(cases, "c04")
    if errd:
        ck.obligation("hand-off during teardown", False, errd[:1500])
    else:
        badd = [i for i, c in enumerate(cases) if i >= len(dv) or dv[i] != c09.dv_spec(c)]
        ck.obligation("a hand-off to a closed / shutting-down target queue is never reported delivered unless a remote owner took it (%d combinations on the real DeliverMessagesToShardOwner)" % len(cases),
                      not badd, "; ".join("%s -> %s" % (cases[i], dv[i] if i < len(dv) else None) for i in badd[:3]))
        if badd:
            i = badd[0]
            ck.violation({"kind": "decision", "case": cases[i], "impl": dv[i] if i < len(dv) else None, "expected": c09.dv_spec(cases[i])},
                         "a task handed to a target queue that its dying stream had already closed was reported delivered (%s -> %s): the receiver drops it and later acknowledgements pass it" % (cases[i], dv[i] if i < len(dv) else None))

    def vary(i, r):
        return {"big": i % 6 == 0, "liveness": False}
    R.engine(ck, PROP, tier, seed, {"faults": True, "vary": vary}, ("C01",), 200, 10000, proof_ok, nontrivial, "", allow_tags=("F2a", "F2b"), project=("K",),
             # a target that confirmed some tasks, then fell more than the id table's initial capacity behind (the table grows
             # while wrapped), confirms watermarks in the middle of the backlog, and only then breaks and reconnects
             extra_histories=lambda r, exe, tier: [long_ring_then_break(r.fork("ringb%d" % i), exe) for i in range(1 if tier == "quick" else 6)])
    return ck.finish(rule="histories with target-stream breaks / reconnections and source-stream restarts at arbitrary points between events; safe-ack monitor over all tasks ever received from a source "
                          "(across incarnations); a violation is classified F2a (the unconfirmed task was received before a break of its owner's stream), F2b (before a restart of the source stream) "
                          "or reported; non-trivial = history containing a break or restart")


def replay(data):
    if data.get("kind") == "decision":
        from . import c09
        return c09.replay(data)
    return R.replay(data)

MANIFEST = {
    "technique": "Coq refutation witnesses (vm_compute) for the two known findings + partial theorems; differential correspondence incl. fault events; safe-ack monitor with finding classification",
    "text": "The full statement is false of the faithful model: C04_refuted_target_break and C04_refuted_source_restart exhibit histories (proved by vm_compute, replayed on the real code on every run) - "
            "known findings F2a / F2b. Break and restart events are part of the correspondence (the real code and the model agree on every explored fault history). Every violation found by the safe-ack "
            "monitor on implementation traces is classified; anything that is not an instance of F2a or F2b is reported as a VIOLATION.",
    "note": "Known findings suppress only violations whose unconfirmed task was received before a break of its owner's target stream (F2a) or before a restart of its source stream (F2b).",
}
