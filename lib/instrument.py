"""Source instrumentation for the lock-boundary schedule explorer (C08).

Every mutex call statement `X.Lock()`, `X.RLock()`, `X.Unlock()`, `X.RUnlock()` (plain or deferred) of the anchor files is
rewritten to `verifMu(&X, "<op>")`; every `select {` gets a `verifYield("select")` in front.  verifMu/verifYield are
pass-through for goroutines the explorer does not control (go/overlay/proxy/zz_verif_sched.go).  The rewrite is purely
syntactic and is checked for completeness: the number of rewritten statements must equal the number of mutex calls in
the file, otherwise the explorer's lock bookkeeping would be wrong and the check reports its tie as broken."""
import os
import re

LOCK_STMT = re.compile(r"^(\s*)(defer\s+)?([A-Za-z_][\w\.\[\]]*)\.(Lock|RLock|Unlock|RUnlock)\(\)\s*(//.*)?$")
ANY_LOCK = re.compile(r"\.(Lock|RLock|Unlock|RUnlock)\(\)")
SELECT = re.compile(r"^(\s*)select \{\s*$")


def instrument(src, dst):
    lines = open(src).read().split("\n")
    out, done, total, selects = [], 0, 0, 0
    for l in lines:
        code = l.split("//")[0]
        n = len(ANY_LOCK.findall(code))
        total += n
        m = LOCK_STMT.match(l)
        if m and n == 1:
            ind, dfr, recv, op = m.group(1), m.group(2) or "", m.group(3), m.group(4)
            out.append('%s%sverifMu(&%s, "%s")' % (ind, dfr, recv, op))
            done += 1
            continue
        ms = SELECT.match(l)
        if ms:
            out.append(ms.group(1) + 'verifYield("select")')
            selects += 1
        out.append(l)
    os.makedirs(os.path.dirname(dst), exist_ok=True)
    open(dst, "w").write("\n".join(out))
    return done, total, selects


def run_calls(src):
    """The translator half of the tie: the shard-manager calls of proxyStreamSender.Run and proxyStreamReceiver.Run, in
    the order they take effect: registration = the non-deferred calls in program order; cleanup = close of the send
    channel (it precedes the deferred calls) followed by the deferred calls in reverse order of their defer statements
    (a deferred closure contributes its calls in body order)."""
    text = open(src).read()

    def body(sig):
        i = text.index(sig)
        j = text.index("\n}\n", i)
        return text[i:j].split("\n")

    def scan(lines, recv):
        reg, defers, closes = [], [], []
        k = 0
        call = re.compile(r"^\s*(defer\s+)?(?:\w+\s*:?=\s*)?%s\.shardManager\.(\w+)\(" % recv)
        while k < len(lines):
            l = lines[k]
            if re.match(r"^\s*defer func\(\) \{\s*$", l):
                depth, grp = 1, []
                k += 1
                while k < len(lines) and depth > 0:
                    depth += lines[k].count("{") - lines[k].count("}")
                    m = call.match(lines[k])
                    if m:
                        grp.append(m.group(2))
                    k += 1
                if grp:
                    defers.append(grp)
                continue
            m = call.match(l)
            if m:
                if m.group(1):
                    defers.append([m.group(2)])
                else:
                    reg.append(m.group(2))
            if re.match(r"^\s*close\(%s\.sendMsgChan\)" % recv, l):
                closes.append("close")
            k += 1
        cleanup = closes + [c for grp in reversed(defers) for c in grp]
        return reg, cleanup

    sreg, sclean = scan(body("func (s *proxyStreamSender) Run("), "s")
    rreg, rclean = scan(body("func (r *proxyStreamReceiver) Run("), "r")
    return {"sr": sreg, "sc": sclean, "rr": rreg, "rc": rclean}


if __name__ == "__main__":
    import sys
    print(run_calls(sys.argv[1]))
