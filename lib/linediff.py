"""Helpers for line-protocol correspondence runs: one input line -> one output line on both
the implementation (Go overlay test) and the extracted model driver."""
import os

from . import vfcore as V


def run_impl(pkg, files, test, lines, tag, env=None, timeout=1200):
    inp = os.path.join(V.WORK, "%s.in" % tag)
    outp = os.path.join(V.WORK, "%s.impl" % tag)
    open(inp, "w").write("\n".join(lines) + "\n")
    if os.path.exists(outp):
        os.remove(outp)
    e = {"VERIF_IN": inp, "VERIF_OUT": outp}
    e.update(env or {})
    rc, out = V.go_test(pkg, files, "^%s$" % test, env=e, timeout=timeout)
    if rc != 0 or not os.path.exists(outp):
        return "go test failed (rc=%d):\n%s" % (rc, out[-3000:]), []
    res = open(outp).read().split("\n")
    if res and res[-1] == "":
        res.pop()
    return None, res


def run_model(exe, args, lines, timeout=1200, big_stack=False):
    cmd = [exe] + list(args)
    if big_stack:
        cmd = ["sh", "-c", "ulimit -s unlimited; exec " + " ".join(cmd)]
    rc, out = V.run(cmd, input="\n".join(lines) + "\n", timeout=timeout)
    if rc != 0:
        return "model driver failed (rc=%d): %s" % (rc, out[-2000:]), []
    res = out.split("\n")
    if res and res[-1] == "":
        res.pop()
    return None, res
