"""Common machinery for the /verif checks: builds (Coq, OCaml, Go overlay), PRNG, evidence,
known findings, violation reporting.  See DESIGN.md section 3."""
import fcntl
import glob
import hashlib
import json
import os
import re
import shutil
import subprocess
import sys
import time

ROOT = os.path.dirname(os.path.dirname(os.path.abspath(__file__)))
REPO = os.environ.get("VERIF_REPO", "/repo")
WORK = os.path.join(ROOT, ".work")
COQ = os.path.join(ROOT, "coq")
ML = os.path.join(WORK, "ml")
NCPU = os.cpu_count() or 4

COQ_Q = ["-Q", os.path.join(COQ, "theories"), "S2S",
         "-Q", os.path.join(COQ, "generated"), "S2SGen",
         "-Q", os.path.join(COQ, "properties"), "S2SProp"]

os.makedirs(WORK, exist_ok=True)


# ----------------------------------------------------------------------------- utilities
class Rng:
    """splitmix64; every random choice of a run derives from one of these."""

    def __init__(self, seed):
        self.s = seed & 0xFFFFFFFFFFFFFFFF

    def next(self):
        self.s = (self.s + 0x9E3779B97F4A7C15) & 0xFFFFFFFFFFFFFFFF
        z = self.s
        z = ((z ^ (z >> 30)) * 0xBF58476D1CE4E5B9) & 0xFFFFFFFFFFFFFFFF
        z = ((z ^ (z >> 27)) * 0x94D049BB133111EB) & 0xFFFFFFFFFFFFFFFF
        return z ^ (z >> 31)

    def below(self, n):
        return self.next() % n

    def range(self, lo, hi):
        return lo + self.below(hi - lo + 1)

    def choice(self, xs):
        return xs[self.below(len(xs))]

    def chance(self, num, den):
        return self.below(den) < num

    def fork(self, tag):
        h = hashlib.sha256(("%d/%s" % (self.s, tag)).encode()).digest()
        return Rng(int.from_bytes(h[:8], "big"))


def run(cmd, cwd=None, env=None, timeout=600, input=None):
    """Run a command; returns (rc, combined output). rc = 124 on timeout."""
    try:
        p = subprocess.run(cmd, cwd=cwd, env=env, timeout=timeout, input=input,
                           stdout=subprocess.PIPE, stderr=subprocess.STDOUT, text=True)
        return p.returncode, p.stdout
    except subprocess.TimeoutExpired as e:
        out = e.stdout or ""
        if isinstance(out, bytes):
            out = out.decode("utf-8", "replace")
        return 124, out + "\n[timeout after %ss]" % timeout


class Lock:
    def __init__(self, name):
        self.path = os.path.join(WORK, name + ".lock")

    def __enter__(self):
        self.f = open(self.path, "w")
        fcntl.flock(self.f, fcntl.LOCK_EX)
        return self

    def __exit__(self, *a):
        fcntl.flock(self.f, fcntl.LOCK_UN)
        self.f.close()


def write_if_changed(path, content):
    try:
        with open(path) as f:
            if f.read() == content:
                return False
    except FileNotFoundError:
        pass
    os.makedirs(os.path.dirname(path), exist_ok=True)
    tmp = path + ".tmp%d" % os.getpid()
    with open(tmp, "w") as f:
        f.write(content)
    os.replace(tmp, path)
    return True


# ----------------------------------------------------------------------------- Coq
FORBIDDEN = re.compile(
    r"\b(Admitted|admit|Axiom|Axioms|Parameter|Parameters|Conjecture|Conjectures|"
    r"Admit\s+Obligations|bypass_check|native_compute)\b|Unset\s+Guard|Unset\s+Positivity|"
    r"Unset\s+Universe|type-in-type|impredicative-set")
SECTION_VAR = re.compile(r"^\s*(Variable|Variables|Hypothesis|Hypotheses|Context)\b")


def strip_coq_comments(src):
    out, depth, i = [], 0, 0
    while i < len(src):
        if src.startswith("(*", i):
            depth += 1
            i += 2
        elif src.startswith("*)", i) and depth > 0:
            depth -= 1
            i += 2
        else:
            if depth == 0:
                out.append(src[i])
            elif src[i] == "\n":
                out.append("\n")
            i += 1
    return "".join(out)


def coq_sources():
    fs = []
    for sub in ("theories", "generated", "properties"):
        fs += glob.glob(os.path.join(COQ, sub, "**", "*.v"), recursive=True)
    return sorted(fs)


def forbidden_scan(files=None):
    """Returns a list of 'file:line: text' for forbidden constructs (comments stripped)."""
    hits = []
    for f in files or (coq_sources() + sorted(glob.glob(os.path.join(COQ, "extraction", "*.v")))):
        src = strip_coq_comments(open(f).read())
        depth = 0
        for n, line in enumerate(src.split("\n"), 1):
            if re.match(r"^\s*Section\b", line):
                depth += 1
            elif re.match(r"^\s*End\b", line) and depth > 0:
                depth -= 1
            if FORBIDDEN.search(line):
                hits.append("%s:%d: %s" % (os.path.relpath(f, ROOT), n, line.strip()))
            if SECTION_VAR.match(line) and depth == 0:
                hits.append("%s:%d: %s (outside a section)" % (os.path.relpath(f, ROOT), n, line.strip()))
    return hits


def coq_project():
    """(Re)write _CoqProject and Makefile.coq from the files on disk (theories + generated)."""
    files = [os.path.relpath(f, COQ) for f in coq_sources() if "/properties/" not in f]
    content = "-Q theories S2S\n-Q generated S2SGen\n-Q properties S2SProp\n" + "\n".join(files) + "\n"
    changed = write_if_changed(os.path.join(COQ, "_CoqProject"), content)
    mk = os.path.join(COQ, "Makefile.coq")
    if changed or not os.path.exists(mk):
        rc, out = run(["coq_makefile", "-f", "_CoqProject", "-o", "Makefile.coq"], cwd=COQ, timeout=120)
        if rc != 0:
            raise RuntimeError("coq_makefile failed: " + out)


def coq_make(targets=None, timeout=1500):
    """Full .vo build (never -vos) of the given targets (paths relative to coq/, default all).
    Returns (ok, log)."""
    with Lock("coq"):
        coq_project()
        cmd = ["make", "-f", "Makefile.coq", "-j%d" % NCPU] + (targets or [])
        rc, out = run(cmd, cwd=COQ, timeout=timeout)
        return rc == 0, out


def coq_property(prop, timeout=900):
    """Compile properties/<prop>.v (always, so that Print Assumptions output is fresh).
    Returns dict(ok, log, theorems=[(name, closed, axioms)])."""
    src = os.path.join(COQ, "properties", prop + ".v")
    with Lock("coq"):
        rc, out = run(["coqc"] + COQ_Q + [src], cwd=COQ, timeout=timeout)
    text = open(src).read()
    printed = re.findall(r"Print Assumptions\s+(\w+)\s*\.", strip_coq_comments(text))
    # coqc prints one block per Print Assumptions, in order
    blocks = re.split(r"(?m)^(?=Closed under the global context|Axioms:)", out)
    blocks = [b for b in blocks if b.startswith("Closed under") or b.startswith("Axioms:")]
    ths = []
    for i, name in enumerate(printed):
        if i < len(blocks):
            b = blocks[i]
            closed = b.startswith("Closed under")
            ths.append((name, closed, "" if closed else b.strip()))
        else:
            ths.append((name, False, "no output"))
    return {"ok": rc == 0, "log": out, "theorems": ths}


def coq_chk(prop, timeout=2400):
    """coqchk -o on the compiled property file: re-checks it and all its dependencies with the independent checker and
    reports the axioms they rely on."""
    with Lock("coq"):
        rc, out = run(["coqchk", "-silent", "-o"] + COQ_Q + ["S2SProp." + prop], cwd=COQ, timeout=timeout)
    if rc == 124 or "TIMEOUT" in out[-200:]:
        return {"ok": False, "timeout": True, "axioms": None, "log": out}
    m = re.search(r"\* Axioms:\s*(.*?)\n\s*\n", out, re.S)
    axioms = " ".join(m.group(1).split()) if m else None
    clean = all(re.search(r"\* %s:\s*<none>" % re.escape(k), out) for k in
                ("Constants/Inductives relying on type-in-type", "Constants/Inductives relying on unsafe (co)fixpoints", "Inductives whose positivity is assumed"))
    return {"ok": rc == 0 and axioms == "<none>" and clean, "timeout": False, "axioms": axioms, "log": out}


# ----------------------------------------------------------------------------- OCaml
def ocaml_build(name, extract_v, model_ml, driver_ml, timeout=600):
    """Extract (coqc on extraction/<extract_v>) and build driver <name> in .work/ml.
    Rebuilds only when inputs changed. Returns (ok, log, exe_path)."""
    os.makedirs(ML, exist_ok=True)
    exe = os.path.join(ML, name)
    with Lock("ml"):
        srcs = [os.path.join(COQ, "extraction", extract_v),
                os.path.join(COQ, "extraction", "driver", driver_ml),
                os.path.join(COQ, "extraction", "driver", "zutil.ml")]
        h = hashlib.sha256()
        for s in srcs + sorted(glob.glob(os.path.join(COQ, "theories", "**", "*.v"), recursive=True)) \
                + sorted(glob.glob(os.path.join(COQ, "generated", "**", "*.v"), recursive=True)):
            h.update(open(s, "rb").read())
        stamp = os.path.join(ML, name + ".stamp")
        if os.path.exists(exe) and os.path.exists(stamp) and open(stamp).read() == h.hexdigest():
            return True, "up to date", exe
        rc, out = run(["coqc"] + COQ_Q + ["-o", os.path.join(ML, extract_v + "o"), srcs[0]], cwd=ML, timeout=timeout)
        if rc != 0:
            return False, out, exe
        for s in srcs[1:]:
            shutil.copy(s, ML)
        base = model_ml[:-3]
        rc, out2 = run(["ocamlfind", "ocamlopt", "-O3", "-package", "str", "-w", "-a",
                        base + ".mli", base + ".ml", "zutil.ml", driver_ml, "-o", name], cwd=ML, timeout=timeout)
        if rc != 0:
            rc, out2 = run(["ocamlfind", "ocamlopt", "-package", "str", "-w", "-a",
                            base + ".mli", base + ".ml", "zutil.ml", driver_ml, "-o", name], cwd=ML, timeout=timeout)
        if rc != 0:
            return False, out + out2, exe
        open(stamp, "w").write(h.hexdigest())
        return True, out + out2, exe


# ----------------------------------------------------------------------------- Go
def go_env(extra=None):
    env = dict(os.environ)
    env["GOFLAGS"] = "-mod=mod"
    env["GOPROXY"] = "off"
    if env.get("GOTOOLCHAIN") == "local":
        del env["GOTOOLCHAIN"]
    env.pop("GOSUMDB", None)
    if extra:
        env.update({k: str(v) for k, v in extra.items()})
    return env


def go_test(pkg, files, run_re, env=None, timeout=900, replace=None, extra_args=None, count=True):
    """go test of /repo/<pkg> with overlay-injected white-box files from go/overlay/<pkg>/.
    `files`: basenames under go/overlay/<pkg dir> (zz_verif_util_test.go is always added);
    `replace`: {repo-relative path: replacement file} for instrumented copies.
    Returns (rc, output)."""
    pkgdir = pkg.strip("./")
    ovdir = os.path.join(ROOT, "go", "overlay", pkgdir)
    tmp = os.path.join(WORK, "ov", "%s_%d_%d" % (pkgdir.replace("/", "_"), os.getpid(), int(time.time() * 1000) % 100000))
    os.makedirs(tmp, exist_ok=True)
    try:
        mapping = {}
        # package name = last component unless the overlay dir says otherwise
        pkgname = pkgdir.split("/")[-1]
        pn = os.path.join(ovdir, "PKGNAME")
        if os.path.exists(pn):
            pkgname = open(pn).read().strip()
        util = open(os.path.join(ROOT, "go", "overlay", "_shared", "zz_verif_util_test.go")).read()
        up = os.path.join(tmp, "zz_verif_util_test.go")
        open(up, "w").write(util.replace("package PKG", "package " + pkgname))
        mapping[os.path.join(REPO, pkgdir, "zz_verif_util_test.go")] = up
        for f in files:
            mapping[os.path.join(REPO, pkgdir, os.path.basename(f))] = os.path.join(ovdir, f)
        for k, v in (replace or {}).items():
            mapping[os.path.join(REPO, k)] = v
        oj = os.path.join(tmp, "overlay.json")
        json.dump({"Replace": mapping}, open(oj, "w"))
        cmd = ["go", "test", "-tags", "verif", "-overlay", oj, "-vet=off"]
        if count:
            cmd += ["-count=1"]
        cmd += ["-run", run_re, "-timeout", "%ds" % max(30, timeout - 10)] + (extra_args or []) + ["./" + pkgdir + "/"]
        return run(cmd, cwd=REPO, env=go_env(env), timeout=timeout)
    finally:
        shutil.rmtree(tmp, ignore_errors=True)


# ----------------------------------------------------------------------------- findings / evidence
def known_findings():
    """Parse KNOWN_FINDINGS.txt -> list of dicts {kind: 'finding'|'fixed', property, id, sig, text}."""
    res = []
    p = os.path.join(ROOT, "KNOWN_FINDINGS.txt")
    if not os.path.exists(p):
        return res
    for line in open(p):
        line = line.strip()
        if not line or line.startswith("#"):
            continue
        m = re.match(r"^(finding|fixed):\s+property=(\S+)\s+(.*)$", line)
        if not m:
            continue
        kind, prop, rest = m.groups()
        d = {"kind": kind, "property": prop, "text": rest, "sig": None, "id": None}
        ms = re.search(r"\bsig=(\S+)", rest)
        if ms:
            d["sig"] = ms.group(1)
        mi = re.search(r"\bid=(\S+)", rest)
        if mi:
            d["id"] = mi.group(1)
        res.append(d)
    return res


class Check:
    """Collects the outcome of one property check and renders evidence + exit status."""

    def __init__(self, prop, tier, seed):
        self.prop, self.tier, self.seed = prop, tier, seed
        self.t0 = time.time()
        self.violations = []      # (replay_path, text, no_input)
        self.known = []           # text lines
        self.obligations = []     # (name, ok, detail)
        self.cov = {}
        self.assumptions = []
        self.trusted = []
        self.samples = []
        self.notes = []
        self.replay_dir = os.path.join(WORK, "replays", prop)
        os.makedirs(self.replay_dir, exist_ok=True)

    def log(self, *a):
        print("[%s %6.1fs]" % (self.prop, time.time() - self.t0), *a, flush=True)

    def obligation(self, name, ok, detail=""):
        self.obligations.append((name, bool(ok), detail))
        if not ok:
            self.log("obligation FAILED:", name, detail[:2000])

    def write_replay(self, data, tag="v"):
        blob = json.dumps(data, indent=1, sort_keys=True)
        h = hashlib.sha256(blob.encode()).hexdigest()[:12]
        path = os.path.join(self.replay_dir, "%s_%s.json" % (tag, h))
        open(path, "w").write(blob)
        return path

    def violation(self, data, text, no_input=False, sig=None):
        """Report a violation unless it matches a listed known finding (by signature)."""
        data = dict(data)
        data.setdefault("property", self.prop)
        data["summary"] = text
        if sig is not None:
            data["sig"] = sig
            for k in known_findings():
                if k["kind"] == "finding" and k["property"] == self.prop and k["sig"] == sig:
                    line = "KNOWN-FINDING: property=%s %s" % (self.prop, k["text"])
                    if line not in self.known:
                        self.known.append(line)
                    return None
        path = self.write_replay(data)
        self.violations.append((path, text, no_input))
        return path

    def finish(self, level="proof", checker_cmd="", rule="", extra=None):
        # safety net: a failed obligation must never end in a silent pass
        failed = [n for n, ok, _ in self.obligations if not ok]
        if failed and not self.violations:
            self.violation({"kind": "unproved", "broken": failed, "search": "no failing input was searched for or found"},
                           "obligation(s) no longer discharged: " + "; ".join(failed)[:300], no_input=True)
        n_ob = len(self.obligations)
        n_ok = sum(1 for o in self.obligations if o[1])
        cov = {
            "obligations": n_ob,
            "discharged": n_ok,
            "checker_cmd": checker_cmd or "make -f Makefile.coq (coqc 8.16.1, full .vo build) + coqc properties/%s.v" % self.prop,
            "trusted_base": self.trusted,
            "obligation_list": [{"name": n, "ok": ok, "detail": d[:300]} for n, ok, d in self.obligations],
            "rule": rule,
            "samples": self.samples[:8] if self.samples else ["(no sample recorded)"],
        }
        cov.update(self.cov)
        if extra:
            cov.update(extra)
        cov.setdefault("evaluations", 0)
        cov.setdefault("distinct_nontrivial", 0)
        ev = {
            "property_id": self.prop, "tier": self.tier, "seed": self.seed, "level": level,
            "coverage": cov, "assumptions": self.assumptions, "wall_s": round(time.time() - self.t0, 2),
            "violations": len(self.violations), "known_findings_reported": self.known, "notes": self.notes,
        }
        validate_evidence(ev)
        os.makedirs(os.path.join(ROOT, "evidence"), exist_ok=True)
        path = os.path.join(ROOT, "evidence", self.prop + ".json")
        open(path, "w").write(json.dumps(ev, indent=1) + "\n")
        for line in self.known:
            print(line)
        for path, text, no_input in self.violations:
            print("VIOLATION property=%s replay=%s%s" % (self.prop, path, " no-failing-input-found" if no_input else ""))
            self.log("  ->", text)
        ok = not self.violations
        self.log("done: %s (%d/%d obligations, %s evaluations, %.1fs)" % (
            "OK" if ok else "VIOLATION", n_ok, n_ob, cov.get("evaluations"), time.time() - self.t0))
        return 0 if ok else 1


CRASH_MARKS = ("panic:", "fatal error:", "SIGSEGV", "all goroutines are asleep", "test timed out")


def crash_violation(ck, err, outp, hs, rerun, what):
    """The Go harness process died.  The harnesses write their output unbuffered, one '#end' per finished scenario, so the
    scenario that was running is known; it is re-run alone and, if the process dies again, reported as the failing input.
    rerun(h) -> error text or None.  Returns True when a concrete violation was reported."""
    if not err or not any(m in err for m in CRASH_MARKS):
        return False
    done = 0
    if os.path.exists(outp):
        done = sum(1 for l in open(outp, errors="replace").read().split("\n") if l.strip() == "#end")
    for cand in (done, done - 1, done + 1):
        if 0 <= cand < len(hs):
            e = rerun(hs[cand])
            if e and any(m in e for m in CRASH_MARKS):
                top = [l for l in e.split("\n") if any(m in l for m in CRASH_MARKS)][:1] + [l.strip() for l in e.split("\n") if "/repo/" in l][:3]
                ck.violation({"kind": "crash", "history": hs[cand], "crash": e[-2500:], "verdict": "the process died while running this history (%s)" % what},
                             "%s: the process crashed on a %d-event history: %s" % (what, len(hs[cand]), " | ".join(top)[:400]))
                return True
    return False


def validate_evidence(ev):
    try:
        import jsonschema
    except ImportError:
        return
    sp = "/root/.vp/EVIDENCE.schema.json"
    if not os.path.exists(sp):
        sp = os.path.join(ROOT, "lib", "EVIDENCE.schema.json")
    if not os.path.exists(sp):
        return
    jsonschema.validate(ev, json.load(open(sp)))


def std_trusted():
    return [
        "Coq 8.16.1 kernel + vm_compute (no native_compute); coqchk re-check in the thorough tier",
        "no axioms declared by the development (grep on every run); Print Assumptions under every property theorem",
        "extraction with ExtrOcamlBasic only (Extract Inductive bool/option/unit/list/prod/sumbool, Inlined Constant fst/snd etc. from that file); OCaml 4.13.1",
        "correspondence harness: /verif/go overlay test files, OCaml line drivers, lib/*.py diffing",
        "Go toolchain 1.26.4, go test -overlay",
    ]


def coq_stage(ck, prop, targets):
    """Standard proof stage: forbidden scan, make of the targets, compile the property file,
    Print Assumptions closedness. Registers obligations. Returns True when everything checked."""
    hits = forbidden_scan()
    ck.obligation("no Admitted/Axiom/Parameter/guard-off in coq/", not hits, "; ".join(hits[:5]))
    ok, log = coq_make(targets)
    ck.obligation("coq build: " + " ".join(targets), ok, log[-3000:])
    if not ok:
        return False
    pr = coq_property(prop)
    ck.obligation("coqc properties/%s.v" % prop, pr["ok"], pr["log"][-3000:])
    allok = pr["ok"] and not hits
    for name, closed, ax in pr["theorems"]:
        ck.obligation("theorem %s (Print Assumptions: %s)" % (name, "closed" if closed else ax[:200]), pr["ok"] and closed, ax)
        allok = allok and closed
    if not pr["theorems"]:
        ck.obligation("property file has theorems", False, "none found")
        allok = False
    if getattr(ck, "tier", "quick") == "thorough" and pr["ok"]:
        res = coq_chk(prop)
        if res["timeout"]:
            ck.log("coqchk on %s did not finish within its time limit (recorded, not counted)" % prop)
            ck.notes.append("coqchk S2SProp.%s: not finished within the time limit" % prop)
        else:
            ck.obligation("coqchk S2SProp.%s (independent re-check of the compiled proofs and everything they depend on): axioms %s" % (prop, res["axioms"] or "?"),
                          res["ok"], res["log"][-2000:])
            allok = allok and res["ok"]
    return allok


def diff_lines(a, b):
    """First index at which two line lists differ, or None."""
    n = min(len(a), len(b))
    for i in range(n):
        if a[i] != b[i]:
            return i
    if len(a) != len(b):
        return n
    return None
