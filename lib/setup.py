"""vf setup: build everything from files on disk (offline): Coq development, extracted drivers,
warm Go build cache for the packages the harness injects tests into."""
import importlib
import os
import sys
import time

from . import vfcore as V

DRIVERS = [
    ("ring_driver", "ExtractRing.v", "ring_model.ml", "ring_driver.ml"),
    ("lcm_driver", "ExtractLcm.v", "lcm_model.ml", "lcm_driver.ml"),
    ("routing_driver", "ExtractRouting.v", "routing_model.ml", "routing_driver.ml"),
    ("tls_driver", "ExtractTls.v", "tls_model.ml", "tls_driver.ml"),
    ("policy_driver", "ExtractPolicy.v", "policy_model.ml", "policy_driver.ml"),
    ("bimap_driver", "ExtractBimap.v", "bimap_model.ml", "bimap_driver.ml"),
    ("utf8_driver", "ExtractUtf8.v", "utf8_model.ml", "utf8_driver.ml"),
    ("forwarder_driver", "ExtractForwarder.v", "forwarder_model.ml", "forwarder_driver.ml"),
    ("pool_driver", "ExtractPool.v", "pool_model.ml", "pool_driver.ml"),
    ("mcc_driver", "ExtractMcc.v", "mcc_model.ml", "mcc_driver.ml"),
    ("ownership_driver", "ExtractOwnership.v", "ownership_model.ml", "ownership_driver.ml"),
    ("registry_driver", "ExtractRegistry.v", "registry_model.ml", "registry_driver.ml"),
    ("observer_driver", "ExtractObserver.v", "observer_model.ml", "observer_driver.ml"),
    ("handover_driver", "ExtractHandover.v", "handover_model.ml", "handover_driver.ml"),
]
GO_PKGS = ["proxy", "encryption", "interceptor", "collect", "config", "proto/compat", "transport/mux"]


def main():
    t0 = time.time()
    rc = 0
    # generated files must exist before the Coq build
    for p in ["C%02d" % i for i in range(1, 21)]:
        path = os.path.join(V.ROOT, "lib", "props", p.lower() + ".py")
        if os.path.exists(path):
            m = importlib.import_module("lib.props." + p.lower())
            if hasattr(m, "generate"):
                try:
                    m.generate()
                except Exception as e:  # noqa: BLE001
                    print("generate %s: %s" % (p, e))
    ok, log = V.coq_make(None, timeout=3000)
    print("coq build:", "ok" if ok else "FAILED", "%.0fs" % (time.time() - t0))
    if not ok:
        print(log[-4000:])
        rc = 1
    for d in DRIVERS:
        ok, log, _ = V.ocaml_build(*d)
        print("driver %s: %s" % (d[0], "ok" if ok else "FAILED"))
        if not ok:
            print(log[-2000:])
            rc = 1
    # white-box accessor files (non-test, build tag verif) that live in packages other than the one under test
    access = {}
    for d, _, files in os.walk(os.path.join(V.ROOT, "go", "overlay")):
        for f in files:
            if f == "zz_verif_access.go":
                rel = os.path.relpath(os.path.join(d, f), os.path.join(V.ROOT, "go", "overlay"))
                access[rel] = os.path.join(d, f)
    for pkg in GO_PKGS:
        r, out = V.go_test(pkg, [f for f in sorted(os.listdir(os.path.join(V.ROOT, "go", "overlay", pkg))) if f.endswith(".go")],
                           "^$", timeout=1800, replace=access)
        print("go warm-up %s: %s" % (pkg, "ok" if r == 0 else "FAILED"))
        if r != 0:
            print(out[-3000:])
            rc = 1
    print("setup done in %.0fs" % (time.time() - t0))
    return rc
